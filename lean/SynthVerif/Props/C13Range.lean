import SynthVerif.Props.C13
/-!
# C13, part 2 — the tight range clause and settling

Part 1 (`C13.lean`) shows that the filter is a monotone one-pole for every `set_time` schedule, that it cannot ring,
and a coarse bound `|y| ≤ 2M`.  This file proves the two remaining clauses of the property for the *rounded* binary32
recurrence `y' = fl(fl(b0·x) − fl(a1·y))`, for all inputs and schedules:

* `range_tight` — "the output stays within the range spanned by its initial value 0 and the inputs seen so far, up
  to the f32 resolution of the filter": for inputs in `[lo, hi] ∋ 0` (amplitude `M`) every output lies in
  `[lo − e, hi + e]` for any `e ≥ 2^-22·M/β`, `β` the smallest smoothing coefficient `b0` in effect during the
  history (`rangeOk_rho`).  The property's "so far" follows by applying the theorem to each prefix of the history.
  The oracle's tolerance is `M·(2^-22/β + 2^-20)`, i.e. slightly weaker than what is proved.
* `held_input_converges` — "for an input held constant the output … settles on it": the distance to the input
  contracts geometrically, `|y_n − x| ≤ q^n·|y_0 − x| + r` with `q = −a1 < 1` and `r = 2^-22·M/(1 − q)`.
  Together with `C13.held_input_monotone` (never reverses) this is "moves monotonically toward it and settles on it"
  up to the resolution `r`; exact equality `y_n = x` is *not* claimed (the rounded recurrence can stall up to `r`
  away from the input; the oracle's `stuck` check uses the same `r`).
-/
open F32 Glide
namespace C13

theorem stepQ_neg (b0 a1 x y : ℚ) : stepQ b0 a1 (-x) (-y) = - stepQ b0 a1 x y := by
  unfold stepQ
  have h1 : b0 * -x = -(b0 * x) := by ring
  have h2 : a1 * -y = -(a1 * y) := by ring
  rw [h1, h2, rnd_neg, rnd_neg]
  have h3 : -rnd (b0 * x) - -rnd (a1 * y) = -(rnd (b0 * x) - rnd (a1 * y)) := by ring
  rw [h3, rnd_neg]

/-- rounding a value of magnitude at most `B`, with the unit roundoff and the subnormal term as named constants -/
theorem rnd_bounds {v B ε δ : ℚ} (hε : ε = 1 / 16777216) (hδ : δ = 2 ^ (-150:ℤ)) (h : |v| ≤ B) :
    rnd v ≤ v + ε * B + δ ∧ v - ε * B - δ ≤ rnd v ∧ |rnd v| ≤ B * (1 + ε) + δ := by
  have eε : (2:ℚ) ^ (-24:ℤ) = 1 / 16777216 := by norm_num
  have r := rnd_err_gen v
  rw [eε, ← hε, ← hδ] at r
  have r' := abs_le.mp r
  have ε0 : 0 ≤ ε := by rw [hε]; norm_num
  have hb : ε * |v| ≤ ε * B := mul_le_mul_of_nonneg_left h ε0
  have t := abs_sub_abs_le_abs_sub (rnd v) v
  refine ⟨by linarith [r'.2], by linarith [r'.1], ?_⟩
  linarith

/-- the numeric core: the error budget of one step closes for `e·β ≥ 2^-22·M`, `e ≤ M/2` -/
theorem budget {ε δ M e c T : ℚ} (ε0 : 0 < ε) (ε1 : ε ≤ 1 / 16777216) (M0 : 0 < M) (δ0 : 0 ≤ δ)
    (hδ : δ ≤ ε * ε * M) (he2 : e ≤ M / 2)
    (hT : T ≤ (1 + ε / 2) * (3 / 2 * M)) (hce : c * e ≤ e - 4 * ε * M + ε / 2 * e) :
    ε / 2 * M + c * e + ε * T + 2 * δ + ε * (T * (1 + ε) + 2 * δ) + δ ≤ e := by
  have hεTT : ε * (T * (1 + ε)) ≤ ε * ((1 + ε / 2) * (3 / 2 * M) * (1 + ε)) := by
    apply mul_le_mul_of_nonneg_left _ ε0.le
    exact mul_le_mul_of_nonneg_right hT (by linarith)
  have hεT : ε * T ≤ ε * ((1 + ε / 2) * (3 / 2 * M)) := mul_le_mul_of_nonneg_left hT ε0.le
  have hεe : ε / 2 * e ≤ ε / 2 * (M / 2) := mul_le_mul_of_nonneg_left he2 (by linarith)
  have hεδ : ε * (2 * δ) ≤ 2 * δ := by
    have : ε * (2 * δ) ≤ 1 * (2 * δ) := mul_le_mul_of_nonneg_right (by linarith) (by linarith)
    linarith
  have hεM : 0 < ε * M := mul_pos ε0 M0
  have hε2M : ε * (ε * M) ≤ 1 / 16777216 * (ε * M) := mul_le_mul_of_nonneg_right ε1 hεM.le
  have hε3M : ε * (ε * (ε * M)) ≤ 1 / 16777216 * (1 / 16777216 * (ε * M)) := by
    calc ε * (ε * (ε * M)) ≤ ε * (1 / 16777216 * (ε * M)) := mul_le_mul_of_nonneg_left hε2M ε0.le
      _ = 1 / 16777216 * (ε * (ε * M)) := by ring
      _ ≤ 1 / 16777216 * (1 / 16777216 * (ε * M)) := mul_le_mul_of_nonneg_left hε2M (by norm_num)
  have hδ' : δ ≤ 1 / 16777216 * (ε * M) := by
    calc δ ≤ ε * ε * M := hδ
      _ = ε * (ε * M) := by ring
      _ ≤ 1 / 16777216 * (ε * M) := hε2M
  have x1 : ε * ((1 + ε / 2) * (3 / 2 * M)) = 3 / 2 * (ε * M) + 3 / 4 * (ε * (ε * M)) := by ring
  have x2 : ε * ((1 + ε / 2) * (3 / 2 * M) * (1 + ε)) =
      3 / 2 * (ε * M) + 9 / 4 * (ε * (ε * M)) + 3 / 4 * (ε * (ε * (ε * M))) := by ring
  have x3 : ε / 2 * (M / 2) = 1 / 4 * (ε * M) := by ring
  have x4 : ε * (T * (1 + ε) + 2 * δ) = ε * (T * (1 + ε)) + ε * (2 * δ) := by ring
  have x5 : ε / 2 * M = 1 / 2 * (ε * M) := by ring
  have x6 : 4 * ε * M = 4 * (ε * M) := by ring
  rw [x1] at hεT; rw [x2] at hεTT; rw [x3] at hεe; rw [x4, x5]; rw [x6] at hce
  linarith

/-- upper half of the range step -/
theorem step_range_up {α a1 x y lo hi M β e : ℚ} (hβ : 2 ^ (-21:ℤ) ≤ β) (hβα : β ≤ α) (hα1 : α ≤ 1)
    (ha0 : a1 ≤ 0) (hsum : -a1 ≤ 1 - α + 2 ^ (-25:ℤ)) (hM : 2 ^ (-100:ℤ) ≤ M)
    (hlo0 : lo ≤ 0) (hhi0 : 0 ≤ hi) (hloM : -M ≤ lo) (hhiM : hi ≤ M)
    (he : 2 ^ (-22:ℤ) * M ≤ e * β) (he2 : e ≤ M / 2)
    (hx1 : lo ≤ x) (hx2 : x ≤ hi) (hy1 : lo - e ≤ y) (hy2 : y ≤ hi + e) :
    stepQ α a1 x y ≤ hi + e := by
  unfold stepQ
  obtain ⟨ε, hε⟩ : ∃ ε : ℚ, ε = 1 / 16777216 := ⟨_, rfl⟩
  obtain ⟨δ, hδ⟩ : ∃ δ : ℚ, δ = 2 ^ (-150:ℤ) := ⟨_, rfl⟩
  have e21 : (2:ℚ) ^ (-21:ℤ) = 8 * ε := by rw [hε]; norm_num
  have e22 : (2:ℚ) ^ (-22:ℤ) = 4 * ε := by rw [hε]; norm_num
  have e25 : (2:ℚ) ^ (-25:ℤ) = ε / 2 := by rw [hε]; norm_num
  have M0 : 0 < M := lt_of_lt_of_le (by positivity) hM
  have δ0 : 0 ≤ δ := by rw [hδ]; positivity
  have hδM : δ ≤ ε * ε * M := by
    have h1 : δ ≤ ε * ε * 2 ^ (-100:ℤ) := by rw [hδ, hε]; norm_num
    have h2 : ε * ε * 2 ^ (-100:ℤ) ≤ ε * ε * M := mul_le_mul_of_nonneg_left hM (by rw [hε]; norm_num)
    exact le_trans h1 h2
  have ε0 : 0 < ε := by rw [hε]; norm_num
  have ε1 : ε ≤ 1 / 16777216 := by rw [hε]
  rw [e21] at hβ; rw [e22] at he; rw [e25] at hsum
  clear hM e21 e22 e25
  have α0 : 0 < α := by linarith
  set c := -a1 with hc
  have c0 : 0 ≤ c := by linarith
  have e0 : 0 ≤ e := by
    by_contra hneg
    have hneg' : e < 0 := not_le.mp hneg
    have h1 : e * β < 0 := mul_neg_of_neg_of_pos hneg' (by linarith)
    have h2 : 0 < 4 * ε * M := by positivity
    linarith
  have hxM : |x| ≤ M := abs_le.mpr ⟨by linarith, by linarith⟩
  have hyM : |y| ≤ M + e := abs_le.mpr ⟨by linarith, by linarith⟩
  have pA : |α * x| ≤ α * M := by rw [abs_mul, abs_of_pos α0]; exact mul_le_mul_of_nonneg_left hxM α0.le
  have pE : |a1 * y| ≤ c * (M + e) := by
    rw [abs_mul, abs_of_nonpos ha0]; exact mul_le_mul_of_nonneg_left hyM c0
  obtain ⟨rA1, _, rA3⟩ := rnd_bounds hε hδ pA
  obtain ⟨_, rE2, rE3⟩ := rnd_bounds hε hδ pE
  -- T bounds both products
  have hT0 : 0 ≤ α * M + c * (M + e) := by positivity
  have hTle : α * M + c * (M + e) ≤ (1 + ε / 2) * (M + e) := by
    have h1 : α * M ≤ α * (M + e) := mul_le_mul_of_nonneg_left (by linarith) α0.le
    have h2 : α * (M + e) + c * (M + e) = (α + c) * (M + e) := by ring
    have h3 : (α + c) * (M + e) ≤ (1 + ε / 2) * (M + e) :=
      mul_le_mul_of_nonneg_right (by linarith) (by linarith)
    linarith
  have hMe : M + e ≤ 3 / 2 * M := by linarith
  have hT2 : α * M + c * (M + e) ≤ (1 + ε / 2) * (3 / 2 * M) :=
    le_trans hTle (mul_le_mul_of_nonneg_left hMe (by linarith))
  have S_abs : |rnd (α * x) - rnd (a1 * y)| ≤ (α * M + c * (M + e)) * (1 + ε) + 2 * δ := by
    have := abs_sub (rnd (α * x)) (rnd (a1 * y))
    have : (α * M + c * (M + e)) * (1 + ε) = α * M * (1 + ε) + c * (M + e) * (1 + ε) := by ring
    linarith
  obtain ⟨rO1, _, _⟩ := rnd_bounds hε hδ S_abs
  clear hδ
  set A := rnd (α * x) with hA
  set E := rnd (a1 * y) with hE
  set T := α * M + c * (M + e) with hT
  -- upper bound on A − E
  have A_up : A ≤ α * hi + ε * (α * M) + δ := by
    have : α * x ≤ α * hi := mul_le_mul_of_nonneg_left hx2 α0.le
    linarith
  have E_lo : -(c * (hi + e)) - ε * (c * (M + e)) - δ ≤ E := by
    have h1 : a1 * y = -(c * y) := by rw [hc]; ring
    have h2 : c * y ≤ c * (hi + e) := mul_le_mul_of_nonneg_left hy2 c0
    linarith
  have S_up : A - E ≤ (α + c) * hi + c * e + ε * T + 2 * δ := by
    have : (α + c) * hi + c * e + ε * T = α * hi + ε * (α * M) + (c * (hi + e) + ε * (c * (M + e))) := by
      rw [hT]; ring
    linarith
  have hhi : (α + c) * hi ≤ hi + ε / 2 * M := by
    have h1 : (α + c) * hi ≤ (1 + ε / 2) * hi := mul_le_mul_of_nonneg_right (by linarith) hhi0
    have h2 : ε / 2 * hi ≤ ε / 2 * M := mul_le_mul_of_nonneg_left hhiM (by linarith)
    linarith
  have hce : c * e ≤ e - 4 * ε * M + ε / 2 * e := by
    have h1 : c * e ≤ (1 - β + ε / 2) * e := mul_le_mul_of_nonneg_right (by linarith) e0
    have h2 : (1 - β + ε / 2) * e = e - e * β + ε / 2 * e := by ring
    linarith
  have key := budget ε0 ε1 M0 δ0 hδM he2 hT2 hce
  linarith

/-- **one step stays in the range of the inputs** (rational recurrence): with `lo ≤ 0 ≤ hi` the range of the inputs
(and of the initial output 0), `M` their amplitude, `β` a lower bound of the smoothing coefficient and any `e` with
`2^-22·M ≤ e·β`, `e ≤ M/2`: if the previous output is in `[lo − e, hi + e]` and the input in `[lo, hi]`, so is the
next output. -/
theorem step_range {α a1 x y lo hi M β e : ℚ} (hβ : 2 ^ (-21:ℤ) ≤ β) (hβα : β ≤ α) (hα1 : α ≤ 1)
    (ha0 : a1 ≤ 0) (hsum : -a1 ≤ 1 - α + 2 ^ (-25:ℤ)) (hM : 2 ^ (-100:ℤ) ≤ M)
    (hlo0 : lo ≤ 0) (hhi0 : 0 ≤ hi) (hloM : -M ≤ lo) (hhiM : hi ≤ M)
    (he : 2 ^ (-22:ℤ) * M ≤ e * β) (he2 : e ≤ M / 2)
    (hx1 : lo ≤ x) (hx2 : x ≤ hi) (hy1 : lo - e ≤ y) (hy2 : y ≤ hi + e) :
    lo - e ≤ stepQ α a1 x y ∧ stepQ α a1 x y ≤ hi + e := by
  constructor
  · have := step_range_up (x := -x) (y := -y) (lo := -hi) (hi := -lo) hβ hβα hα1 ha0 hsum hM
      (by linarith) (by linarith) (by linarith) (by linarith) he he2 (by linarith) (by linarith)
      (by linarith) (by linarith)
    rw [stepQ_neg] at this
    linarith
  · exact step_range_up hβ hβα hα1 ha0 hsum hM hlo0 hhi0 hloM hhiM he he2 hx1 hx2 hy1 hy2

/-- the range parameters: `lo ≤ 0 ≤ hi` inside `[-M, M]`, and an excursion `e` large enough for the coefficient bound `β` -/
structure RangeOk (lo hi M β e : ℚ) : Prop where
  β21 : 2 ^ (-21:ℤ) ≤ β
  Mlo : 2 ^ (-100:ℤ) ≤ M
  Mhi : M ≤ 2 ^ (58:ℤ)
  lo0 : lo ≤ 0
  hi0 : 0 ≤ hi
  loM : -M ≤ lo
  hiM : hi ≤ M
  eβ : 2 ^ (-22:ℤ) * M ≤ e * β
  e2 : e ≤ M / 2

/-- state part: finite memory, last output inside the widened range -/
def RInv (lo hi e : ℚ) (g : Glide) : Prop :=
  g.x1.isFin = true ∧ g.x2.isFin = true ∧ g.y1.isFin = true ∧ g.y2.isFin = true ∧
  lo - e ≤ g.y1.val ∧ g.y1.val ≤ hi + e

theorem process_range (g : Glide) (σ : ℚ) (ns : Bool) {lo hi M β e : ℚ} (p : RangeOk lo hi M β e)
    (h : CInv g σ ns) (hs : RInv lo hi e g) (hβ : β ≤ g.coeffs.b0.val)
    (x : F32) (hx : x.isFin = true) (hx1 : lo ≤ x.val) (hx2 : x.val ≤ hi) :
    CInv (g.process x).1 σ ns ∧ RInv lo hi e (g.process x).1 ∧ (g.process x).2.isFin = true ∧
    lo - e ≤ (g.process x).2.val ∧ (g.process x).2.val ≤ hi + e ∧ (g.process x).1.coeffs = g.coeffs := by
  obtain ⟨f1, f2, f3, f4, hy1, hy2⟩ := hs
  have M0 : 0 < M := lt_of_lt_of_le (by positivity) p.Mlo
  have hb0 : |g.coeffs.b0.val| ≤ 1 := by
    rw [abs_of_nonneg (le_trans (by positivity) h.b0lo)]; exact h.b0hi
  have ha1 : |g.coeffs.a1.val| ≤ 1 := by rw [abs_of_nonpos h.a1hi]; linarith [h.a1lo]
  have hB : (2:ℚ) * M ≤ 2 ^ (60:ℤ) := by
    calc 2 * M ≤ 2 * 2 ^ (58:ℤ) := by linarith [p.Mhi]
      _ ≤ 2 ^ (60:ℤ) := by norm_num
  have e2 := p.e2
  have hyB : |g.y1.val| ≤ 2 * M := abs_le.mpr ⟨by linarith [p.loM], by linarith [p.hiM]⟩
  have hxB : |x.val| ≤ 2 * M := abs_le.mpr ⟨by linarith [p.loM], by linarith [p.hiM]⟩
  have pv := process_val g x (2 * M) (by linarith) hB h.one ⟨f1, f2, f3, f4, hyB⟩ hx hxB hb0 ha1
  obtain ⟨p1, p2, p3, p4, p5, p6, p7, p8, p9, p10, p11⟩ := pv
  have hr := step_range p.β21 hβ h.b0hi h.a1hi h.sum p.Mlo p.lo0 p.hi0 p.loM p.hiM p.eβ p.e2 hx1 hx2 hy1 hy2
  rw [← p2] at hr
  refine ⟨?_, ?_, p1, hr.1, hr.2, p7⟩
  · exact ⟨by rw [p9]; exact h.fs, h.lo, h.hi, h.rep, by rw [p10]; exact h.minFc, by rw [p11]; exact h.maxFc,
      ⟨by rw [p7]; exact h.one.a2, by rw [p7]; exact h.one.b1, by rw [p7]; exact h.one.b2,
       by rw [p7]; exact h.one.a1f, by rw [p7]; exact h.one.b0f⟩,
      by rw [p7]; exact h.b0lo, by rw [p7]; exact h.b0hi, by rw [p7]; exact h.a1lo, by rw [p7]; exact h.a1hi,
      by rw [p7]; exact h.sum, by rw [p7]; exact h.sum'⟩
  · exact ⟨by rw [p4]; exact hx, by rw [p5]; exact f1, by rw [p3]; exact p1, by rw [p6]; exact f3,
      by rw [p3]; exact hr.1, by rw [p3]; exact hr.2⟩

/-- all inputs of a history are finite and inside `[lo, hi]` -/
def inputsIn (lo hi : ℚ) : List Op → Prop
  | [] => True
  | .setTime _ :: ops => inputsIn lo hi ops
  | .process x :: ops => x.isFin = true ∧ lo ≤ x.val ∧ x.val ≤ hi ∧ inputsIn lo hi ops

/-- every coefficient set in effect during the history has smoothing coefficient at least `β` -/
def AlphaGe (β : ℚ) (g : Glide) : List Op → Prop
  | [] => β ≤ g.coeffs.b0.val
  | .setTime t :: ops => β ≤ g.coeffs.b0.val ∧ (match g.setTime t with | none => True | some g' => AlphaGe β g' ops)
  | .process x :: ops => β ≤ g.coeffs.b0.val ∧ AlphaGe β (g.process x).1 ops

/-- **C13, range clause (tight form).**  For a sample rate in [100, 48000] Hz and every history of `set_time` calls
(arbitrary f32 arguments, at any point, also in mid-glide) and `process` calls with finite inputs in `[lo, hi] ∋ 0`,
every output lies in `[lo − e, hi + e]`, where the excursion `e` is the f32 resolution of the filter:
any `e ≥ 2^-22·M/β` (`M` the amplitude of the inputs, `β` the smallest smoothing coefficient `b0` in effect during
the history).  For the glide-off setting (`b0 ≈ 0.76`) that is 3·10^-7·M; for the slowest glide at 48 kHz
(`b0 ≈ 1.3·10^-5`) 0.018·M. -/
theorem range_tight (g : Glide) (σ : ℚ) (ns : Bool) {lo hi M β e : ℚ} (p : RangeOk lo hi M β e)
    (h : CInv g σ ns) (hs : RInv lo hi e g) (ops : List Op) (hi' : inputsIn lo hi ops) (hα : AlphaGe β g ops) :
    ∃ g' ys, run g ops = some (g', ys) ∧ CInv g' σ ns ∧ RInv lo hi e g' ∧
      ∀ y ∈ ys, y.isFin = true ∧ lo - e ≤ y.val ∧ y.val ≤ hi + e := by
  induction ops generalizing g with
  | nil => exact ⟨g, [], rfl, h, hs, by simp⟩
  | cons o ops ih =>
    cases o with
    | setTime t =>
      obtain ⟨g1, e1, c1, x1, x2, y1, y2⟩ := setTime_inv g σ ns h t
      have hs1 : RInv lo hi e g1 := by
        obtain ⟨f1, f2, f3, f4, hy1, hy2⟩ := hs
        exact ⟨by rw [x1]; exact f1, by rw [x2]; exact f2, by rw [y1]; exact f3, by rw [y2]; exact f4,
          by rw [y1]; exact hy1, by rw [y1]; exact hy2⟩
      have hα1 : AlphaGe β g1 ops := by
        have := hα.2
        rw [e1] at this
        exact this
      obtain ⟨g', ys, hr, c', s', hall⟩ := ih g1 c1 hs1 hi' hα1
      have : run g (.setTime t :: ops) = (match g.setTime t with | none => none | some g' => run g' ops) := rfl
      exact ⟨g', ys, by rw [this, e1]; exact hr, c', s', hall⟩
    | process x =>
      obtain ⟨hx, hx1, hx2, hrest⟩ := hi'
      obtain ⟨c1, s1, o1, ob1, ob2, _⟩ := process_range g σ ns p h hs hα.1 x hx hx1 hx2
      obtain ⟨g', ys, hr, c', s', hall⟩ := ih (g.process x).1 c1 s1 hrest hα.2
      have : run g (.process x :: ops) = (match run (g.process x).1 ops with
        | none => none | some (g', ys) => some (g', (g.process x).2 :: ys)) := rfl
      refine ⟨g', (g.process x).2 :: ys, by rw [this, hr], c', s', ?_⟩
      intro y hy
      simp only [List.mem_cons] at hy
      rcases hy with rfl | hy
      · exact ⟨o1, ob1, ob2⟩
      · exact hall y hy

/-- the excursion `2^-22·M/β` meets `RangeOk` whenever `β ≥ 2^-21` (which `CInv` guarantees for every coefficient
set) -/
theorem rangeOk_rho {lo hi M β : ℚ} (β21 : 2 ^ (-21:ℤ) ≤ β) (Mlo : 2 ^ (-100:ℤ) ≤ M) (Mhi : M ≤ 2 ^ (58:ℤ))
    (lo0 : lo ≤ 0) (hi0 : 0 ≤ hi) (loM : -M ≤ lo) (hiM : hi ≤ M) :
    RangeOk lo hi M β (2 ^ (-22:ℤ) * M / β) := by
  have β0 : 0 < β := lt_of_lt_of_le (by positivity) β21
  have M0 : 0 < M := lt_of_lt_of_le (by positivity) Mlo
  refine ⟨β21, Mlo, Mhi, lo0, hi0, loM, hiM, ?_, ?_⟩
  · rw [div_mul_cancel₀ _ (ne_of_gt β0)]
  · rw [div_le_iff₀ β0]
    have e21 : (2:ℚ) ^ (-21:ℤ) = 1 / 2097152 := by norm_num
    have e22 : (2:ℚ) ^ (-22:ℤ) = 1 / 4194304 := by norm_num
    rw [e21] at β21; rw [e22]
    nlinarith

/-- a freshly constructed processor is inside every range (its memory is zero) -/
theorem new_rinv (σ : ℚ) (ns : Bool) (lo' : 100 ≤ σ) (hi' : σ ≤ 48000) (hrep : Rep σ) {lo hi e : ℚ}
    (lo0 : lo ≤ 0) (hi0 : 0 ≤ hi) (e0 : 0 ≤ e) :
    ∃ g, Glide.new (.fin σ ns) = some g ∧ CInv g σ ns ∧ RInv lo hi e g := by
  obtain ⟨g, hg, c, z1, z2, z3, z4⟩ := new_inv σ ns lo' hi' hrep
  have zv : zero.val = 0 := rfl
  have zf : zero.isFin = true := rfl
  refine ⟨g, hg, c, ?_⟩
  rw [RInv, z1, z2, z3, z4, zv]
  exact ⟨zf, zf, zf, zf, by linarith, by linarith⟩


/-! ### convergence: with the input held the distance to it contracts down to the resolution of the filter -/

theorem budget2 {ε δ M T : ℚ} (ε0 : 0 < ε) (ε1 : ε ≤ 1 / 16777216) (M0 : 0 < M) (δ0 : 0 ≤ δ)
    (hδ : δ ≤ ε * ε * M) (hT : T ≤ (1 + ε / 2) * (3 / 2 * M)) :
    ε / 2 * M + ε * T + 2 * δ + ε * (T * (1 + ε) + 2 * δ) + δ ≤ 4 * ε * M := by
  have hεTT : ε * (T * (1 + ε)) ≤ ε * ((1 + ε / 2) * (3 / 2 * M) * (1 + ε)) := by
    apply mul_le_mul_of_nonneg_left _ ε0.le
    exact mul_le_mul_of_nonneg_right hT (by linarith)
  have hεT : ε * T ≤ ε * ((1 + ε / 2) * (3 / 2 * M)) := mul_le_mul_of_nonneg_left hT ε0.le
  have hεδ : ε * (2 * δ) ≤ 2 * δ := by
    have : ε * (2 * δ) ≤ 1 * (2 * δ) := mul_le_mul_of_nonneg_right (by linarith) (by linarith)
    linarith
  have hεM : 0 < ε * M := mul_pos ε0 M0
  have hε2M : ε * (ε * M) ≤ 1 / 16777216 * (ε * M) := mul_le_mul_of_nonneg_right ε1 hεM.le
  have hε3M : ε * (ε * (ε * M)) ≤ 1 / 16777216 * (1 / 16777216 * (ε * M)) := by
    calc ε * (ε * (ε * M)) ≤ ε * (1 / 16777216 * (ε * M)) := mul_le_mul_of_nonneg_left hε2M ε0.le
      _ = 1 / 16777216 * (ε * (ε * M)) := by ring
      _ ≤ 1 / 16777216 * (1 / 16777216 * (ε * M)) := mul_le_mul_of_nonneg_left hε2M (by norm_num)
  have hδ' : δ ≤ 1 / 16777216 * (ε * M) := by
    calc δ ≤ ε * ε * M := hδ
      _ = ε * (ε * M) := by ring
      _ ≤ 1 / 16777216 * (ε * M) := hε2M
  have x1 : ε * ((1 + ε / 2) * (3 / 2 * M)) = 3 / 2 * (ε * M) + 3 / 4 * (ε * (ε * M)) := by ring
  have x2 : ε * ((1 + ε / 2) * (3 / 2 * M) * (1 + ε)) =
      3 / 2 * (ε * M) + 9 / 4 * (ε * (ε * M)) + 3 / 4 * (ε * (ε * (ε * M))) := by ring
  have x4 : ε * (T * (1 + ε) + 2 * δ) = ε * (T * (1 + ε)) + ε * (2 * δ) := by ring
  have x5 : ε / 2 * M = 1 / 2 * (ε * M) := by ring
  have x6 : 4 * ε * M = 4 * (ε * M) := by ring
  rw [x1] at hεT; rw [x2] at hεTT; rw [x4, x5, x6]
  linarith

/-- **one step, signed form**: `y' − x = c·(y − x) + err`, `|err| ≤ 2^-22·M`, `c = −a1 ≈ 1 − b0` -/
theorem step_signed {α a1 x y M : ℚ} (hα0 : 0 < α) (hα1 : α ≤ 1) (ha0 : a1 ≤ 0)
    (hsum : -a1 ≤ 1 - α + 2 ^ (-25:ℤ)) (hsum' : 1 - α - 2 ^ (-25:ℤ) ≤ -a1) (hM : 2 ^ (-100:ℤ) ≤ M)
    (hx : |x| ≤ M) (hy : |y| ≤ 3 / 2 * M) :
    |stepQ α a1 x y - x - -a1 * (y - x)| ≤ 2 ^ (-22:ℤ) * M := by
  unfold stepQ
  obtain ⟨ε, hε⟩ : ∃ ε : ℚ, ε = 1 / 16777216 := ⟨_, rfl⟩
  obtain ⟨δ, hδ⟩ : ∃ δ : ℚ, δ = 2 ^ (-150:ℤ) := ⟨_, rfl⟩
  have e22 : (2:ℚ) ^ (-22:ℤ) = 4 * ε := by rw [hε]; norm_num
  have e25 : (2:ℚ) ^ (-25:ℤ) = ε / 2 := by rw [hε]; norm_num
  have M0 : 0 < M := lt_of_lt_of_le (by positivity) hM
  have δ0 : 0 ≤ δ := by rw [hδ]; positivity
  have hδM : δ ≤ ε * ε * M := by
    have h1 : δ ≤ ε * ε * 2 ^ (-100:ℤ) := by rw [hδ, hε]; norm_num
    have h2 : ε * ε * 2 ^ (-100:ℤ) ≤ ε * ε * M := mul_le_mul_of_nonneg_left hM (by rw [hε]; norm_num)
    exact le_trans h1 h2
  have ε0 : 0 < ε := by rw [hε]; norm_num
  have ε1 : ε ≤ 1 / 16777216 := by rw [hε]
  rw [e22]; rw [e25] at hsum hsum'
  clear hM e22 e25
  set c := -a1 with hc
  have c0 : 0 ≤ c := by linarith
  have pA : |α * x| ≤ α * M := by rw [abs_mul, abs_of_pos hα0]; exact mul_le_mul_of_nonneg_left hx hα0.le
  have pE : |a1 * y| ≤ c * (3 / 2 * M) := by
    rw [abs_mul, abs_of_nonpos ha0]; exact mul_le_mul_of_nonneg_left hy c0
  obtain ⟨rA1, rA2, rA3⟩ := rnd_bounds hε hδ pA
  obtain ⟨rE1, rE2, rE3⟩ := rnd_bounds hε hδ pE
  have hT2 : α * M + c * (3 / 2 * M) ≤ (1 + ε / 2) * (3 / 2 * M) := by
    have h1 : α * M ≤ α * (3 / 2 * M) := mul_le_mul_of_nonneg_left (by linarith) hα0.le
    have h2 : α * (3 / 2 * M) + c * (3 / 2 * M) = (α + c) * (3 / 2 * M) := by ring
    have h3 : (α + c) * (3 / 2 * M) ≤ (1 + ε / 2) * (3 / 2 * M) :=
      mul_le_mul_of_nonneg_right (by linarith) (by linarith)
    linarith
  have S_abs : |rnd (α * x) - rnd (a1 * y)| ≤ (α * M + c * (3 / 2 * M)) * (1 + ε) + 2 * δ := by
    have := abs_sub (rnd (α * x)) (rnd (a1 * y))
    have : (α * M + c * (3 / 2 * M)) * (1 + ε) = α * M * (1 + ε) + c * (3 / 2 * M) * (1 + ε) := by ring
    linarith
  obtain ⟨rO1, rO2, _⟩ := rnd_bounds hε hδ S_abs
  clear hδ
  set A := rnd (α * x) with hA
  set E := rnd (a1 * y) with hE
  set T := α * M + c * (3 / 2 * M) with hT
  -- the exact part
  have id1 : α * x - a1 * y - x = c * (y - x) + (α + c - 1) * x := by rw [hc]; ring
  have hw : |(α + c - 1) * x| ≤ ε / 2 * M := by
    rw [abs_mul]
    have h1 : |α + c - 1| ≤ ε / 2 := abs_le.mpr ⟨by linarith, by linarith⟩
    exact mul_le_mul h1 hx (abs_nonneg _) (by linarith)
  have hw' := abs_le.mp hw
  have hεT : ε * T = ε * (α * M) + ε * (c * (3 / 2 * M)) := by rw [hT]; ring
  have key := budget2 ε0 ε1 M0 δ0 hδM hT2
  rw [abs_le]
  constructor <;> linarith

/-- **one step contracts the distance to a held input**: `|y' − x| ≤ c·|y − x| + 2^-22·M` -/
theorem step_contract {α a1 x y M : ℚ} (hα0 : 0 < α) (hα1 : α ≤ 1) (ha0 : a1 ≤ 0)
    (hsum : -a1 ≤ 1 - α + 2 ^ (-25:ℤ)) (hsum' : 1 - α - 2 ^ (-25:ℤ) ≤ -a1) (hM : 2 ^ (-100:ℤ) ≤ M)
    (hx : |x| ≤ M) (hy : |y| ≤ 3 / 2 * M) :
    |stepQ α a1 x y - x| ≤ -a1 * |y - x| + 2 ^ (-22:ℤ) * M := by
  have hs := abs_le.mp (step_signed hα0 hα1 ha0 hsum hsum' hM hx hy)
  have hu : |-a1 * (y - x)| ≤ -a1 * |y - x| := by rw [abs_mul, abs_of_nonneg (by linarith)]
  have hu' := abs_le.mp hu
  exact abs_le.mpr ⟨by linarith, by linarith⟩

/-- the iterates of a held input stay within `3M/2` -/
theorem iter_bounded {α a1 x y0 M : ℚ} (hα : 2 ^ (-21:ℤ) ≤ α) (hα1 : α ≤ 1) (ha0 : a1 ≤ 0)
    (hsum : -a1 ≤ 1 - α + 2 ^ (-25:ℤ)) (hM : 2 ^ (-100:ℤ) ≤ M) (hx : |x| ≤ M) (hy : |y0| ≤ 3 / 2 * M) (n : ℕ) :
    |iter α a1 x y0 n| ≤ 3 / 2 * M := by
  have M0 : 0 < M := lt_of_lt_of_le (by positivity) hM
  have e21 : (2:ℚ) ^ (-21:ℤ) = 1 / 2097152 := by norm_num
  have e22 : (2:ℚ) ^ (-22:ℤ) = 1 / 4194304 := by norm_num
  induction n with
  | zero => exact hy
  | succ n ih =>
    obtain ⟨x1, x2⟩ := abs_le.mp hx
    obtain ⟨y1, y2⟩ := abs_le.mp ih
    have := step_range (x := x) (y := iter α a1 x y0 n) (lo := -M) (hi := M) (M := M) (β := α) (e := M / 2) hα (le_refl _) hα1 ha0 hsum hM
      (by linarith) (by linarith) (le_refl _) (le_refl _)
      (by rw [e22]; rw [e21] at hα; nlinarith) (le_refl _) x1 x2 (by linarith) (by linarith)
    exact abs_le.mpr ⟨by show -(3 / 2 * M) ≤ stepQ α a1 x (iter α a1 x y0 n); linarith [this.1],
      by show stepQ α a1 x (iter α a1 x y0 n) ≤ 3 / 2 * M; linarith [this.2]⟩

/-- **convergence to within the resolution of the filter.**  With the input held at `x` (`|x| ≤ M`) and the
coefficients fixed, after `n` samples the output is within `q^n·|y0 − x| + r` of `x`, where `q = −a1 ≤ 1 − b0 + 2^-25 < 1`
and `r = 2^-22·M / (1 − q)` is the f32 resolution of the filter (≈ 2.4·10^-7·M/b0): the distance decays
geometrically, at the rate of the ideal RC lag, until it reaches `r`. -/
theorem held_converges {α a1 x y0 M : ℚ} (hα : 2 ^ (-21:ℤ) ≤ α) (hα1 : α ≤ 1) (ha0 : a1 ≤ 0)
    (hsum : -a1 ≤ 1 - α + 2 ^ (-25:ℤ)) (hsum' : 1 - α - 2 ^ (-25:ℤ) ≤ -a1) (hM : 2 ^ (-100:ℤ) ≤ M)
    (hx : |x| ≤ M) (hy : |y0| ≤ 3 / 2 * M) (n : ℕ) :
    |iter α a1 x y0 n - x| ≤ (-a1) ^ n * |y0 - x| + 2 ^ (-22:ℤ) * M / (1 - -a1) := by
  have e21 : (2:ℚ) ^ (-21:ℤ) = 1 / 2097152 := by norm_num
  have e25 : (2:ℚ) ^ (-25:ℤ) = 1 / 33554432 := by norm_num
  have α0 : 0 < α := lt_of_lt_of_le (by positivity) hα
  set c := -a1 with hc
  have c0 : 0 ≤ c := by linarith
  have c1 : 0 < 1 - c := by rw [e21] at hα; rw [e25] at hsum; linarith
  set κ := (2:ℚ) ^ (-22:ℤ) * M with hκ
  have hr : c * (κ / (1 - c)) + κ = κ / (1 - c) := by
    field_simp; ring
  induction n with
  | zero => 
    have : 0 ≤ κ / (1 - c) := by
      apply div_nonneg _ c1.le
      rw [hκ]
      have : 0 < M := lt_of_lt_of_le (by positivity) hM
      positivity
    simp only [iter, pow_zero, one_mul]
    linarith
  | succ n ih =>
    have hb := iter_bounded hα hα1 ha0 hsum hM hx hy n
    have hs := step_contract (y := iter α a1 x y0 n) α0 hα1 ha0 hsum hsum' hM hx hb
    rw [← hc, ← hκ] at hs
    have h1 : c * |iter α a1 x y0 n - x| ≤ c * (c ^ n * |y0 - x| + κ / (1 - c)) :=
      mul_le_mul_of_nonneg_left ih c0
    have h2 : c * (c ^ n * |y0 - x| + κ / (1 - c)) = c ^ (n + 1) * |y0 - x| + c * (κ / (1 - c)) := by ring
    show |stepQ α a1 x (iter α a1 x y0 n) - x| ≤ c ^ (n + 1) * |y0 - x| + κ / (1 - c)
    linarith

/-- signed form of `held_converges`: the output follows the ideal geometric decay `c^n·(y0 − x)` to within `r` -/
theorem held_signed {α a1 x y0 M : ℚ} (hα : 2 ^ (-21:ℤ) ≤ α) (hα1 : α ≤ 1) (ha0 : a1 ≤ 0)
    (hsum : -a1 ≤ 1 - α + 2 ^ (-25:ℤ)) (hsum' : 1 - α - 2 ^ (-25:ℤ) ≤ -a1) (hM : 2 ^ (-100:ℤ) ≤ M)
    (hx : |x| ≤ M) (hy : |y0| ≤ 3 / 2 * M) (n : ℕ) :
    |iter α a1 x y0 n - x - (-a1) ^ n * (y0 - x)| ≤ 2 ^ (-22:ℤ) * M / (1 - -a1) := by
  have e21 : (2:ℚ) ^ (-21:ℤ) = 1 / 2097152 := by norm_num
  have e25 : (2:ℚ) ^ (-25:ℤ) = 1 / 33554432 := by norm_num
  have α0 : 0 < α := lt_of_lt_of_le (by positivity) hα
  set c := -a1 with hc
  have c0 : 0 ≤ c := by linarith
  have c1 : 0 < 1 - c := by rw [e21] at hα; rw [e25] at hsum; linarith
  set κ := (2:ℚ) ^ (-22:ℤ) * M with hκ
  have hr : c * (κ / (1 - c)) + κ = κ / (1 - c) := by
    field_simp; ring
  have r0 : 0 ≤ κ / (1 - c) := by
    apply div_nonneg _ c1.le
    rw [hκ]
    have : 0 < M := lt_of_lt_of_le (by positivity) hM
    positivity
  induction n with
  | zero => simp only [iter, pow_zero, one_mul, sub_self, abs_zero]; exact r0
  | succ n ih =>
    have hb := iter_bounded hα hα1 ha0 hsum hM hx hy n
    have hs := abs_le.mp (step_signed (y := iter α a1 x y0 n) α0 hα1 ha0 hsum hsum' hM hx hb)
    rw [← hc, ← hκ] at hs
    have ih' := abs_le.mp ih
    have h1 : c * (iter α a1 x y0 n - x - c ^ n * (y0 - x)) ≤ c * (κ / (1 - c)) :=
      mul_le_mul_of_nonneg_left ih'.2 c0
    have h2 : c * (-(κ / (1 - c))) ≤ c * (iter α a1 x y0 n - x - c ^ n * (y0 - x)) :=
      mul_le_mul_of_nonneg_left ih'.1 c0
    have e : stepQ α a1 x (iter α a1 x y0 n) - x - c ^ (n + 1) * (y0 - x) =
        (stepQ α a1 x (iter α a1 x y0 n) - x - c * (iter α a1 x y0 n - x)) +
        c * (iter α a1 x y0 n - x - c ^ n * (y0 - x)) := by ring
    show |stepQ α a1 x (iter α a1 x y0 n) - x - c ^ (n + 1) * (y0 - x)| ≤ κ / (1 - c)
    rw [e]
    exact abs_le.mpr ⟨by linarith, by linarith⟩

/-- **C13, settling (model level).**  With the input held at a finite `x`, `|x| ≤ M`, and no `set_time` call, the
filter output after `n` samples is within `q^n·|y − x| + r` of `x` (`q = −a1 < 1`, `r = 2^-22·M/(1 − q)`): it settles
on the input up to the f32 resolution of the filter, from any state with `|y| ≤ 3M/2` (every state reachable with
inputs bounded by `M`, `range_tight`). -/
theorem held_input_converges (g : Glide) (σ : ℚ) (ns : Bool) (M : ℚ) (hM : 1 ≤ M) (hM' : M ≤ 2 ^ (58:ℤ))
    (h : CInv g σ ns) (hs : SInv M g) (hy : |g.y1.val| ≤ 3 / 2 * M)
    (x : F32) (hx : x.isFin = true) (hxM : |x.val| ≤ M) (n : ℕ) :
    |((fun s => (Glide.process s x).1)^[n] g).y1.val - x.val| ≤
      (-g.coeffs.a1.val) ^ n * |g.y1.val - x.val| + 2 ^ (-22:ℤ) * M / (1 - -g.coeffs.a1.val) := by
  obtain ⟨g', _, _, _, hg, hy'⟩ := held_input_iter g σ ns M hM hM' h hs x hx hxM n
  rw [← hg, hy']
  exact held_converges h.b0lo h.b0hi h.a1hi h.sum h.sum' (le_trans (by norm_num) hM) hxM hy n

/-- non-vacuity: inputs in [-1, 1] with the glide-off coefficient range (b0 ≥ 1/2) give an excursion of 2^-21 -/
example : RangeOk (-1) 1 1 (1 / 2) (2 ^ (-22:ℤ) * 1 / (1 / 2)) :=
  rangeOk_rho (by norm_num) (by norm_num) (by norm_num) (by norm_num) (by norm_num) (by norm_num) (by norm_num)

end C13
