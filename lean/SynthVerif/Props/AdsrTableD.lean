import SynthVerif.Props.Interp
/-!
Kernel-evaluated facts about the generated decay table: every cell falls, stays inside [0,1] and its interpolated
far end does not pass the next entry.
-/
namespace AdsrTab
open F32

/-- one cell `(T[i], T[i+1])` of a falling table -/
def fallOk (b0 b1 : ℕ) : Bool :=
  (ofBits b0).isFin && (ofBits b1).isFin &&
  decide ((ofBits b0).val ≤ 1) && decide (0 ≤ (ofBits b1).val) &&
  decide (rnd ((ofBits b1).val - (ofBits b0).val) ≤ 0) &&
  decide ((ofBits b1).val ≤ interpQ (ofBits b0).val (ofBits b1).val 1)

theorem decay_len : Gen.decayBitsL.length = 1024 := by decide +kernel
theorem decay_cells : allPairs fallOk Gen.decayBitsL = true := by decide +kernel
theorem decay_first : ofBits (Gen.decayBitsL.getD 0 0) = one := by decide +kernel
theorem decay_last : ofBits (Gen.decayBitsL.getD 1023 0) = zero := by decide +kernel

end AdsrTab
