import SynthVerif.Props.Interp
/-!
# C10 — LFO waveforms have the documented range, shape and phase relations

For every phase-counter value `acc < 2^24` (`phase = acc / 2^24`):
* `ramp_exact`, `upSaw_exact`: up-saw = 2·phase − 1 *exactly* (no rounding error); `downSaw_neg`: down-saw is its
  exact negation;
* `square_spec`: +1 iff `acc < 2^23`, else −1;
* `triangle_exact`: the exact piecewise-linear wave 4p / 2−4p / 4p−4, hence 0, +1, −1 at phase 0, ¼, ¾;
* `sine_range`: −1 ≤ sine ≤ 1, by op-monotonicity in the in-cell fraction and a kernel evaluation of all 1024
  table cells (the table is regenerated from the compiled crate on every run);
* `shapes_in_range`: all five shapes lie in [−1, +1];
* `reachable_acc_lt`: every history of tick / set_frequency / set_phase / reset keeps `acc < 2^24`.
`get` is a function of the state alone and returns no state: reading one shape cannot disturb another.
The closeness of the sine to `sin(2π·phase)` is proved in `C10Sine.lean` (`C10.Sine.sine_close`).
-/
namespace C10
open F32

theorem lfo_bits : Gen.lfoTotalBits = 24 ∧ Gen.lfoIndexBits = 10 ∧ Gen.sineLutSize = 1024 := by decide

/-- an oscillator state with the generated geometry and a phase counter inside its 24 bits -/
structure Ok (l : Lfo) : Prop where
  tb : l.pa.totalBits = 24
  ib : l.pa.indexBits = 10
  acc : l.pa.acc < 2 ^ 24

private theorem two_val : Lfo.two.val = 2 ∧ Lfo.two.isFin = true := ⟨rfl, rfl⟩

/-- phase as a rational -/
def phase (l : Lfo) : ℚ := (l.pa.acc : ℚ) / 2 ^ 24

theorem phase_range (l : Lfo) (h : Ok l) : 0 ≤ phase l ∧ phase l < 1 := by
  unfold phase
  constructor
  · positivity
  · rw [div_lt_one (by positivity)]; exact_mod_cast h.acc

/-- scaling the ramp by 2 or 4 is exact -/
private theorem ramp_scaled (l : Lfo) (h : Ok l) (c : F32) (k : ℕ) (hk : k ≤ 2) (hc : c = .fin (2 ^ k) false) :
    (mul l.pa.ramp c).isFin = true ∧ (mul l.pa.ramp c).val = (l.pa.acc : ℚ) / 2 ^ (24 - k) := by
  obtain ⟨r1, r2⟩ := PhaseAcc.ramp_exact l.pa h.tb h.acc
  subst hc
  have hacc : (l.pa.acc : ℚ) < 2 ^ 24 := by exact_mod_cast h.acc
  have e : (l.pa.acc : ℚ) / 2 ^ 24 * 2 ^ k = (l.pa.acc : ℚ) / 2 ^ (24 - k) := by
    have : (2:ℚ) ^ 24 = 2 ^ (24 - k) * 2 ^ k := by rw [← pow_add]; congr 1; omega
    rw [this]; field_simp
  have hrep : Rep ((l.pa.acc : ℚ) / 2 ^ (24 - k)) := by
    have := rep_div_pow2 (m := (l.pa.acc : ℤ)) (by rw [abs_of_nonneg (by positivity)]; exact_mod_cast h.acc) (24 - k) (by omega)
    simpa using this
  have hb : |l.pa.ramp.val * (F32.fin (2 ^ k) false).val| ≤ 2 ^ (127:ℤ) := by
    rw [r2, val_fin, e, abs_of_nonneg (by positivity)]
    calc (l.pa.acc : ℚ) / 2 ^ (24 - k) ≤ l.pa.acc := div_le_self (by positivity) (one_le_pow₀ (by norm_num))
      _ ≤ 2 ^ 24 := le_of_lt hacc
      _ ≤ 2 ^ (127:ℤ) := by norm_num
  obtain ⟨m1, m2⟩ := val_mul r1 (isFin_fin _ _) hb
  rw [r2, val_fin, e, rnd_rep hrep] at m2
  exact ⟨m1, m2⟩

private theorem ramp2 (l : Lfo) (h : Ok l) :
    (mul l.pa.ramp Lfo.two).isFin = true ∧ (mul l.pa.ramp Lfo.two).val = (l.pa.acc : ℚ) / 8388608 := by
  have := ramp_scaled l h Lfo.two 1 (by norm_num) (by simp [Lfo.two])
  norm_num at this; exact this

private theorem ramp4 (l : Lfo) (h : Ok l) :
    (mul l.pa.ramp Lfo.four).isFin = true ∧ (mul l.pa.ramp Lfo.four).val = (l.pa.acc : ℚ) / 4194304 := by
  have := ramp_scaled l h Lfo.four 2 (by norm_num) (by simp [Lfo.four]; norm_num)
  norm_num at this; exact this

private theorem acc_bounds (l : Lfo) (h : Ok l) : (0:ℚ) ≤ l.pa.acc ∧ (l.pa.acc : ℚ) < 16777216 := by
  refine ⟨by positivity, ?_⟩
  have := h.acc
  exact_mod_cast this

/-- **up-saw = 2·phase − 1, exactly** -/
theorem upSaw_exact (l : Lfo) (h : Ok l) : l.upSaw.isFin = true ∧ l.upSaw.val = 2 * phase l - 1 := by
  obtain ⟨m1, m2⟩ := ramp2 l h
  obtain ⟨hnn, hacc⟩ := acc_bounds l h
  have e : (l.pa.acc : ℚ) / 8388608 - 1 = (((l.pa.acc : ℤ) - 2 ^ 23 : ℤ) : ℚ) / 2 ^ 23 := by
    push_cast; norm_num; ring
  have hrep : Rep ((l.pa.acc : ℚ) / 8388608 - 1) := by
    rw [e]
    apply rep_div_pow2 _ 23 (by norm_num)
    have := h.acc
    rw [abs_lt]; constructor <;> omega
  have o1 : one.val = 1 := rfl
  have hb : |(mul l.pa.ramp Lfo.two).val - one.val| ≤ 2 ^ (127:ℤ) := by
    rw [m2, o1]
    have : |(l.pa.acc : ℚ) / 8388608 - 1| ≤ 1 := by
      rw [abs_le]; constructor
      · have : (0:ℚ) ≤ (l.pa.acc : ℚ) / 8388608 := by positivity
        linarith
      · have : (l.pa.acc : ℚ) / 8388608 ≤ 2 := by rw [div_le_iff₀ (by norm_num)]; linarith
        linarith
    exact le_trans this (by norm_num)
  obtain ⟨s1, s2⟩ := val_sub m1 (by rfl : one.isFin = true) hb
  rw [m2, o1, rnd_rep hrep] at s2
  refine ⟨s1, ?_⟩
  unfold Lfo.upSaw
  rw [s2]; unfold phase; norm_num; ring

/-- the down-saw is the exact negation of the up-saw (as a binary32 value, sign of zero included) -/
theorem downSaw_neg (l : Lfo) : l.get .downSaw = neg (l.get .upSaw) := rfl

theorem neg_val (x : F32) : (neg x).val = -x.val ∧ (neg x).isFin = x.isFin := by
  cases x <;> simp [neg, val, isFin]

/-- **square**: +1 in the first half cycle, −1 in the second -/
theorem square_spec (l : Lfo) (h : Ok l) :
    l.get .square = (if l.pa.acc < 2 ^ 23 then one else .fin (-1) false) := by
  obtain ⟨r1, r2⟩ := PhaseAcc.ramp_exact l.pa h.tb h.acc
  obtain ⟨hnn, hacc⟩ := acc_bounds l h
  simp only [Lfo.get]
  rw [lt_val r1 (by rfl), r2]
  have hv : Lfo.half.val = 1 / 2 := rfl
  rw [hv]
  have h24 : (2:ℚ) ^ 24 = 16777216 := by norm_num
  have hiff : ((l.pa.acc : ℚ) / 2 ^ 24 < 1 / 2) ↔ l.pa.acc < 2 ^ 23 := by
    rw [h24, div_lt_iff₀ (by norm_num)]
    constructor
    · intro hh
      have : (l.pa.acc : ℚ) < 8388608 := by linarith
      have : l.pa.acc < 8388608 := by exact_mod_cast this
      omega
    · intro hh
      have : l.pa.acc < 8388608 := by omega
      have : (l.pa.acc : ℚ) < 8388608 := by exact_mod_cast this
      linarith
  have hd : decide ((l.pa.acc : ℚ) / 2 ^ 24 < 1 / 2) = decide (l.pa.acc < 2 ^ 23) := decide_eq_decide.mpr hiff
  rw [hd]
  by_cases hc : l.pa.acc < 2 ^ 23 <;> simp [hc]

/-- **triangle**: the exact piecewise-linear wave in phase with the sine -/
theorem triangle_exact (l : Lfo) (h : Ok l) :
    (l.get .triangle).isFin = true ∧
    (l.get .triangle).val =
      (if l.pa.acc < 2 ^ 22 then 4 * phase l else if l.pa.acc < 3 * 2 ^ 22 then 2 - 4 * phase l else 4 * phase l - 4) := by
  obtain ⟨m1, m2⟩ := ramp4 l h
  obtain ⟨hnn, hacc⟩ := acc_bounds l h
  have e4 : (l.pa.acc : ℚ) / 4194304 = 4 * phase l := by unfold phase; norm_num; ring
  have i1 : ((l.pa.acc : ℚ) / 4194304 < 1) ↔ l.pa.acc < 2 ^ 22 := by
    rw [div_lt_one (by norm_num)]
    exact ⟨fun hh => by exact_mod_cast hh, fun hh => by exact_mod_cast hh⟩
  have i3 : ((l.pa.acc : ℚ) / 4194304 < 3) ↔ l.pa.acc < 3 * 2 ^ 22 := by
    rw [div_lt_iff₀ (by norm_num)]
    constructor
    · intro hh; have : (l.pa.acc : ℚ) < 12582912 := by linarith
      exact_mod_cast this
    · intro hh; have : (l.pa.acc : ℚ) < 12582912 := by exact_mod_cast hh
      linarith
  have q1 : (0:ℚ) ≤ (l.pa.acc : ℚ) / 4194304 := by positivity
  have q2 : (l.pa.acc : ℚ) / 4194304 ≤ 4 := by rw [div_le_iff₀ (by norm_num)]; linarith
  simp only [Lfo.get]
  rw [lt_val m1 (by rfl), lt_val m1 (by rfl), m2]
  have o1 : one.val = 1 := rfl
  have o3 : Lfo.three.val = 3 := rfl
  have o2 : Lfo.two.val = 2 := rfl
  have o4 : Lfo.four.val = 4 := rfl
  have hd1 : decide ((l.pa.acc : ℚ) / 4194304 < 1) = decide (l.pa.acc < 2 ^ 22) := decide_eq_decide.mpr i1
  have hd3 : decide ((l.pa.acc : ℚ) / 4194304 < 3) = decide (l.pa.acc < 3 * 2 ^ 22) := decide_eq_decide.mpr i3
  rw [o1, o3, hd1, hd3]
  by_cases c1 : l.pa.acc < 2 ^ 22
  · simp only [c1, decide_true, ↓reduceIte]
    exact ⟨m1, by rw [m2, e4]⟩
  · simp only [c1, decide_false, Bool.false_eq_true, ↓reduceIte]
    by_cases c3 : l.pa.acc < 3 * 2 ^ 22
    · simp only [c3, decide_true, ↓reduceIte]
      have e : (2:ℚ) - (l.pa.acc : ℚ) / 4194304 = (((2 ^ 23 : ℤ) - (l.pa.acc : ℤ) : ℤ) : ℚ) / 2 ^ 22 := by
        push_cast; norm_num; ring
      have hrep : Rep ((2:ℚ) - (l.pa.acc : ℚ) / 4194304) := by
        rw [e]; apply rep_div_pow2 _ 22 (by norm_num)
        rw [abs_lt]; constructor <;> omega
      have hb : |Lfo.two.val - (mul l.pa.ramp Lfo.four).val| ≤ 2 ^ (127:ℤ) := by
        rw [m2, o2]
        have : |(2:ℚ) - (l.pa.acc : ℚ) / 4194304| ≤ 2 := by rw [abs_le]; constructor <;> linarith
        exact le_trans this (by norm_num)
      obtain ⟨s1, s2⟩ := val_sub (by rfl : Lfo.two.isFin = true) m1 hb
      rw [m2, o2, rnd_rep hrep] at s2
      exact ⟨s1, by rw [s2, e4]⟩
    · simp only [c3, decide_false, Bool.false_eq_true, ↓reduceIte]
      have e : (l.pa.acc : ℚ) / 4194304 - 4 = (((l.pa.acc : ℤ) - (2 ^ 24 : ℤ) : ℤ) : ℚ) / 2 ^ 22 := by
        push_cast; norm_num; ring
      have hrep : Rep ((l.pa.acc : ℚ) / 4194304 - 4) := by
        rw [e]; apply rep_div_pow2 _ 22 (by norm_num)
        have := h.acc
        rw [abs_lt]; constructor <;> omega
      have hb : |(mul l.pa.ramp Lfo.four).val - Lfo.four.val| ≤ 2 ^ (127:ℤ) := by
        rw [m2, o4]
        have : |(l.pa.acc : ℚ) / 4194304 - 4| ≤ 4 := by rw [abs_le]; constructor <;> linarith
        exact le_trans this (by norm_num)
      obtain ⟨s1, s2⟩ := val_sub m1 (by rfl : Lfo.four.isFin = true) hb
      rw [m2, o4, rnd_rep hrep] at s2
      exact ⟨s1, by rw [s2, e4]⟩

/-! ### sine: range by cell end points -/

/-- what the kernel checks for one table cell `(T[i], T[i+1])`: both entries are finite and within [-1, 1], and so is
the interpolated value at the far end of the cell (fraction 1) -/
def cellOk (b0 b1 : ℕ) : Bool :=
  (ofBits b0).isFin && (ofBits b1).isFin &&
  decide (-1 ≤ (ofBits b0).val) && decide ((ofBits b0).val ≤ 1) &&
  decide (-1 ≤ (ofBits b1).val) && decide ((ofBits b1).val ≤ 1) &&
  decide (-1 ≤ interpQ (ofBits b0).val (ofBits b1).val 1) && decide (interpQ (ofBits b0).val (ofBits b1).val 1 ≤ 1)

theorem sine_len : Gen.sineBitsL.length = 1024 := by decide +kernel
theorem sine_cells : allPairs cellOk Gen.sineBitsL = true := by decide +kernel
theorem sine_wrap_cell : cellOk (Gen.sineBitsL.getD 1023 0) (Gen.sineBitsL.getD 0 0) = true := by decide +kernel

theorem sineAt_eq (i : ℕ) : sineAt i = ofBits (Gen.sineBitsL.getD i 0) := by
  simp [sineAt, Gen.sineBits]

/-- every cell of the sine table, including the one that wraps from the last entry to the first -/
theorem sine_cell_ok (i : ℕ) (hi : i < 1024) :
    cellOk (Gen.sineBitsL.getD i 0) (Gen.sineBitsL.getD ((i + 1) % 1024) 0) = true := by
  by_cases h : i + 1 < 1024
  · rw [Nat.mod_eq_of_lt h]
    exact allPairs_get cellOk Gen.sineBitsL sine_cells i (by rw [sine_len]; exact h)
  · have : i = 1023 := by omega
    subst this
    exact sine_wrap_cell

/-- **sine range**: −1 ≤ sine ≤ 1 at every phase -/
theorem sine_range (l : Lfo) (h : Ok l) :
    (l.get .sine).isFin = true ∧ -1 ≤ (l.get .sine).val ∧ (l.get .sine).val ≤ 1 := by
  have hi := PhaseAcc.index_lt l.pa h.tb h.ib h.acc
  obtain ⟨f1, f2⟩ := PhaseAcc.fraction_exact l.pa h.tb h.ib
  have hc := sine_cell_ok l.pa.index hi
  simp only [cellOk, Bool.and_eq_true, decide_eq_true_eq] at hc
  obtain ⟨⟨⟨⟨⟨⟨⟨c1, c2⟩, c3⟩, c4⟩, c5⟩, c6⟩, c7⟩, c8⟩ := hc
  have hf0 : 0 ≤ l.pa.fraction.val := by rw [f2]; positivity
  have hf1 : l.pa.fraction.val ≤ 1 := by
    rw [f2, div_le_one (by positivity)]
    have : l.pa.acc % 2 ^ 14 < 2 ^ 14 := Nat.mod_lt _ (by norm_num)
    exact_mod_cast le_of_lt this
  simp only [Lfo.get, lfo_bits.2.2, sineAt_eq]
  set y0 := ofBits (Gen.sineBitsL.getD l.pa.index 0)
  set y1 := ofBits (Gen.sineBitsL.getD ((l.pa.index + 1) % 1024) 0)
  obtain ⟨v1, v2⟩ := linearInterp_val (y0 := y0) (y1 := y1) (f := l.pa.fraction) c1 c2 f1
    (by rw [abs_le]; constructor <;> linarith) (by rw [abs_le]; constructor <;> linarith) hf0 hf1
  have hb := interpQ_between (y0 := y0.val) (y1 := y1.val) (f := l.pa.fraction.val) (ofBits_rnd _) hf0 hf1
  refine ⟨v1, ?_, ?_⟩
  · rw [v2]; exact le_trans (le_min c3 c7) hb.1
  · rw [v2]; exact le_trans hb.2 (max_le c4 c8)

theorem phase_lt (l : Lfo) (n : ℕ) (h : l.pa.acc < n) : phase l < (n:ℚ) / 16777216 := by
  unfold phase
  have : (l.pa.acc : ℚ) < n := by exact_mod_cast h
  have h24 : (2:ℚ) ^ 24 = 16777216 := by norm_num
  rw [h24, div_lt_div_iff_of_pos_right (by norm_num)]; exact this

theorem phase_ge (l : Lfo) (n : ℕ) (h : n ≤ l.pa.acc) : (n:ℚ) / 16777216 ≤ phase l := by
  unfold phase
  have : (n:ℚ) ≤ l.pa.acc := by exact_mod_cast h
  have h24 : (2:ℚ) ^ 24 = 16777216 := by norm_num
  rw [h24, div_le_div_iff_of_pos_right (by norm_num)]; exact this

/-- **all five shapes lie in [−1, +1]** at every phase the oscillator can reach -/
theorem shapes_in_range (l : Lfo) (h : Ok l) (w : Waveshape) :
    (l.get w).isFin = true ∧ -1 ≤ (l.get w).val ∧ (l.get w).val ≤ 1 := by
  obtain ⟨p0, p1⟩ := phase_range l h
  cases w with
  | sine => exact sine_range l h
  | upSaw =>
    obtain ⟨u1, u2⟩ := upSaw_exact l h
    exact ⟨u1, by show -1 ≤ l.upSaw.val; rw [u2]; linarith, by show l.upSaw.val ≤ 1; rw [u2]; linarith⟩
  | downSaw =>
    obtain ⟨u1, u2⟩ := upSaw_exact l h
    obtain ⟨n1, n2⟩ := neg_val l.upSaw
    refine ⟨by show (neg l.upSaw).isFin = true; rw [n2]; exact u1, ?_, ?_⟩
    · show -1 ≤ (neg l.upSaw).val; rw [n1, u2]; linarith
    · show (neg l.upSaw).val ≤ 1; rw [n1, u2]; linarith
  | square =>
    rw [square_spec l h]; split <;> simp [one]
  | triangle =>
    obtain ⟨t1, t2⟩ := triangle_exact l h
    refine ⟨t1, ?_, ?_⟩ <;> rw [t2]
    · split
      · linarith
      · split
        · rename_i c3
          have := phase_lt l (3 * 2 ^ 22) c3
          norm_num at this; linarith
        · rename_i c1 c3
          have := phase_ge l (3 * 2 ^ 22) (not_lt.mp c3)
          norm_num at this; linarith
    · split
      · rename_i c1
        have := phase_lt l (2 ^ 22) c1
        norm_num at this; linarith
      · split
        · rename_i c1 c3
          have := phase_ge l (2 ^ 22) (not_lt.mp c1)
          norm_num at this; linarith
        · linarith

/-- the three anchor points of the triangle: 0 at phase 0, +1 at 1/4, −1 at 3/4 -/
theorem triangle_anchors (l : Lfo) (h : Ok l) :
    (l.pa.acc = 0 → (l.get .triangle).val = 0) ∧ (l.pa.acc = 2 ^ 22 → (l.get .triangle).val = 1) ∧
    (l.pa.acc = 3 * 2 ^ 22 → (l.get .triangle).val = -1) := by
  obtain ⟨_, t2⟩ := triangle_exact l h
  refine ⟨fun h0 => ?_, fun h1 => ?_, fun h3 => ?_⟩ <;> rw [t2] <;> unfold phase
  · rw [h0]; norm_num
  · rw [h1]; norm_num
  · rw [h3]; norm_num

/-! ### every reachable state has its phase counter inside 24 bits -/

inductive Op
  | tick | setFrequency (f : F32) | setPhase (p : F32) | reset

def runOps (l : Lfo) : List Op → Option Lfo
  | [] => some l
  | .tick :: os => match l.tick with | none => none | some l' => runOps l' os
  | .setFrequency f :: os => runOps (l.setFrequency f) os
  | .setPhase p :: os => runOps (l.setPhase p) os
  | .reset :: os => runOps l.reset os

theorem mask24 : ofNat (2 ^ 24 - 1) = .fin 16777215 false := by decide +kernel

/-- `set_phase` always lands inside the 24-bit range, for every f32 argument -/
theorem setPhase_ok (l : Lfo) (h : Ok l) (p : F32) : Ok (l.setPhase p) := by
  refine ⟨h.tb, h.ib, ?_⟩
  show (l.pa.setPhase p).acc < 2 ^ 24
  simp only [PhaseAcc.setPhase, PhaseAcc.reset, PhaseAcc.mask, h.tb]
  rw [mask24]
  -- the argument of `toU32` is NaN (↦ 0) or a finite product ≤ 2^24 - 1
  generalize (if lt p zero = true then mul p (.fin (-1) false) else p) = ph
  suffices hle : toU32 (mul (.fin 16777215 false) (fmod ph one)) ≤ 16777215 by omega
  have hone : one = .fin 1 false := rfl
  rw [hone]
  cases ph with
  | nan => simp [fmod, mul, toU32]
  | inf s => simp [fmod, mul, toU32]
  | fin a na =>
    simp only [fmod]
    have h1 : ((1:ℚ) == 0) = false := by decide
    simp only [h1, Bool.false_eq_true, ↓reduceIte]
    -- r = a - trunc(a) lies in (-1, 1)
    have hr : a - (truncInt (a / 1) : ℚ) * 1 ≤ 1 ∧ -1 ≤ a - (truncInt (a / 1) : ℚ) * 1 := by
      simp only [div_one, mul_one, truncInt]
      split
      · rename_i hneg
        have f1 := Int.floor_le (-a)
        have f2 := Int.lt_floor_add_one (-a)
        have e : ((-a).floor : ℤ) = ⌊-a⌋ := rfl
        rw [e]; push_cast
        constructor <;> linarith
      · have f1 := Int.floor_le a
        have f2 := Int.lt_floor_add_one a
        have e : (a.floor : ℤ) = ⌊a⌋ := rfl
        rw [e]
        constructor <;> linarith
    split
    · rw [mul_fin]
      exact toU32_round_le _ _ 16777215 (by norm_num) (by norm_num) (by norm_num)
    · rw [mul_fin]
      apply toU32_round_le _ _ 16777215 _ _ (by norm_num)
      · have := hr.1; push_cast; nlinarith
      · have := hr.2
        have : -(16777215:ℚ) ≤ 16777215 * (a - (truncInt (a / 1) : ℚ) * 1) := by nlinarith
        exact le_trans (by norm_num) this

theorem new_ok (sr : F32) : Ok (Lfo.new sr) := ⟨lfo_bits.1, lfo_bits.2.1, by simp [Lfo.new, PhaseAcc.new]⟩

/-- **reachability**: whatever sequence of tick / set_frequency / set_phase / reset is applied to a new oscillator
(with any f32 arguments), if no call panics the phase counter stays inside its 24 bits, so all the statements above
apply to every state the oscillator can reach -/
theorem reachable_ok (l : Lfo) (h : Ok l) (os : List Op) (l' : Lfo) (hr : runOps l os = some l') : Ok l' := by
  induction os generalizing l with
  | nil =>
    have hr' : some l = some l' := hr
    injection hr' with hr'; subst hr'; exact h
  | cons o os ih =>
    cases o with
    | tick =>
      have hr' : (match l.tick with | none => none | some l1 => runOps l1 os) = some l' := hr
      cases ht : l.tick with
      | none => rw [ht] at hr'; simp at hr'
      | some l1 =>
        rw [ht] at hr'
        refine ih l1 ?_ hr'
        simp only [Lfo.tick, PhaseAcc.tick] at ht
        by_cases hov : l.pa.acc + l.pa.inc ≥ 2 ^ 32
        · rw [if_pos hov] at ht; simp at ht
        · rw [if_neg hov] at ht
          simp only [Option.map_some, Option.some.injEq] at ht
          subst ht
          refine ⟨h.tb, h.ib, ?_⟩
          show (l.pa.acc + l.pa.inc) % 2 ^ l.pa.totalBits < 2 ^ 24
          rw [h.tb]; exact Nat.mod_lt _ (by norm_num)
    | setFrequency f => exact ih (l.setFrequency f) ⟨h.tb, h.ib, h.acc⟩ hr
    | setPhase p => exact ih (l.setPhase p) (setPhase_ok l h p) hr
    | reset => exact ih l.reset ⟨h.tb, h.ib, by simp [Lfo.reset, PhaseAcc.reset]⟩ hr

/-- non-vacuity: a concrete reachable state and its five shapes -/
example : ((runOps (Lfo.new (ofBits 0x447a0000)) [.setFrequency (ofBits 0x437a0000), .tick]).map
    fun l => (toBits (l.get .triangle), toBits (l.get .upSaw), toBits (l.get .square))) =
    some (0x3f800000, 0xbf000000, 0x3f800000) := by decide +kernel

end C10
