import SynthVerif.Props.C03
/-!
# C03, part 2 — continuity across every phase boundary

`boundary_step`: a tick that ends a timed phase (attack → decay, decay → sustain, release → rest) changes the output
by at most the steepest slope of the phase that ends times the fraction of that phase one tick covers
(`inc/2^24`, `inc` the increment that tick used), plus the same rounding slack as inside a phase.  The new phase starts
exactly where the old one was heading: the attack table ends at 1.0 and the decay starts at 1.0·(1−S)+S = 1; the decay
table ends at 0.0, i.e. at the sustain level / at rest.  Together with `same_phase_step`, `gate_on_step` and
`gate_off_step` this covers every tick of every history.
-/
namespace C03
open F32 AdsrTab C01

/-- at the last counter position the sample is the last table entry -/
theorem sample_last (T : ℕ → ℚ) (hrep : rnd (T 1023) = T 1023) : sampleQ T (2 ^ 24 - 1) = T 1023 := by
  unfold sampleQ
  have e1 : (2 ^ 24 - 1) / 2 ^ 14 = 1023 := by norm_num
  have e2 : min (1023 + 1) 1023 = 1023 := by norm_num
  rw [e1, e2]
  unfold interpQ
  simp [rnd_zero, hrep]

/-- distance of the sample from the end value of the table, in counter steps to the end of the phase -/
theorem sample_to_end (T : ℕ → ℚ) (D : ℚ) (hD : D < 2 ^ (-7:ℤ)) (hT : ∀ i, i ≤ 1023 → 0 ≤ T i ∧ T i ≤ 1)
    (hcell : ∀ i, i ≤ 1023 → |T (nxt i) - T i| ≤ D) (hrep : rnd (T 1023) = T 1023) (a : ℕ) (h : a < 2 ^ 24) :
    |T 1023 - sampleQ T a| ≤ (1024 * D) * ((2 ^ 24 - 1 - a : ℕ) : ℚ) / 2 ^ 24 + (2 ^ (-23:ℤ) + 2 ^ (-29:ℤ)) := by
  have hk : a + (2 ^ 24 - 1 - a) = 2 ^ 24 - 1 := by omega
  have := sample_step T D hD hT hcell a (2 ^ 24 - 1 - a) (by omega)
  rw [hk, sample_last T hrep] at this
  exact this

theorem Aq_last : Aq 1023 = 1 := by unfold Aq; rw [attack_last]; rfl
theorem Dq_last : Dq 1023 = 0 := by unfold Dq; rw [decay_last]; rfl

/-- **phase boundary**: the tick that ends a timed phase -/
theorem boundary_step (a0 a1 a2 : Adsr) (h0 : AInv a0) (e1 : a0.tick = some a1) (e2 : a1.tick = some a2)
    (ht : a1.state.timed = true) (hs : a2.state ≠ a1.state) :
    |a2.value.val - a1.value.val| ≤
      (if a1.state = .attack then 1024 * DA else 1024 * DD) * (C02.incOf a1 : ℚ) / 2 ^ 24 + slack := by
  obtain ⟨i1, v1⟩ := tick_value a0 a1 h0 e1
  obtain ⟨i2, v2⟩ := tick_value a1 a2 i1 e2
  obtain ⟨f1, f2, f3, _⟩ := tick_fields a1 a2 e2
  obtain ⟨j1, j2⟩ := C17.inc_ok a1 i1.ok
  have hacc := i1.ok.acc
  obtain ⟨a', e', _, _, _, hcase⟩ := C02.tick_timed a1 ht i1.ok.rolled (by omega)
  rw [e2] at e'; simp only [Option.some.injEq] at e'; subst e'
  rw [i1.ok.tb] at hcase
  have hroll : 2 ^ 24 ≤ a1.pa.acc + C02.incOf a1 := by
    by_contra hn
    rw [if_neg hn] at hcase
    exact hs hcase.1
  rw [if_pos hroll] at hcase
  obtain ⟨hnext, hzero⟩ := hcase
  -- the remaining distance is less than the increment
  have hrem : ((2 ^ 24 - 1 - a1.pa.acc : ℕ) : ℚ) ≤ (C02.incOf a1 : ℚ) := by
    have : 2 ^ 24 - 1 - a1.pa.acc ≤ C02.incOf a1 := by omega
    exact_mod_cast this
  have hA := sample_to_end Aq DA DA_small attack_T attack_cell_height (attack_rising.rep 1023) a1.pa.acc hacc
  have hD := sample_to_end Dq DD DD_small decay_T decay_cell_height (decay_falling.rep 1023) a1.pa.acc hacc
  rw [Aq_last] at hA; rw [Dq_last] at hD
  obtain ⟨ra0, ra1⟩ := attack_rising.sample_range a1.pa.acc hacc
  obtain ⟨rd0, rd1⟩ := decay_falling.sample_range a1.pa.acc hacc
  have hDA : (0:ℚ) ≤ 1024 * DA := by unfold DA; norm_num
  have hDD : (0:ℚ) ≤ 1024 * DD := by unfold DD; norm_num
  have mA : 1024 * DA * ((2 ^ 24 - 1 - a1.pa.acc : ℕ) : ℚ) / 2 ^ 24 ≤ 1024 * DA * (C02.incOf a1 : ℚ) / 2 ^ 24 := by
    apply div_le_div_of_nonneg_right (mul_le_mul_of_nonneg_left hrem hDA) (by norm_num)
  have mD : 1024 * DD * ((2 ^ 24 - 1 - a1.pa.acc : ℕ) : ℚ) / 2 ^ 24 ≤ 1024 * DD * (C02.incOf a1 : ℚ) / 2 ^ 24 := by
    apply div_le_div_of_nonneg_right (mul_le_mul_of_nonneg_left hrem hDD) (by norm_num)
  unfold slack
  cases hst : a1.state
  · rw [hst] at ht; simp [AdsrState.timed] at ht
  · -- attack → decay: the decay starts at exactly 1 = blend L 1
    rw [hst] at hnext
    have hn : a2.state = .decay := hnext
    rw [v1, v2, hn, hst, if_pos rfl, hzero, sampleD_zero]
    dsimp only
    rw [blend_top i2.sus.2.1 i2.sus.2.2.1]
    have hb := blend_lipschitz (S := sampleQ Aq a1.pa.acc) (S' := 1) i1.on.2.1 i1.on.2.2.1 ra0 ra1 (by norm_num) (le_refl _)
    rw [blend_top i1.on.2.1 i1.on.2.2.1] at hb
    calc |1 - blend a1.onLevel.val (sampleQ Aq a1.pa.acc)|
        ≤ |1 - sampleQ Aq a1.pa.acc| + (2 ^ (-23:ℤ) + 2 ^ (-24:ℤ)) := hb
      _ ≤ 1024 * DA * (C02.incOf a1 : ℚ) / 2 ^ 24 + (2 ^ (-23:ℤ) + 2 ^ (-29:ℤ) + (2 ^ (-23:ℤ) + 2 ^ (-24:ℤ))) := by
          linarith
  · -- decay → sustain: the decay was heading for blend S 0 = S
    rw [hst] at hnext
    have hn : a2.state = .sustain := hnext
    rw [v1, v2, hn, hst, if_neg (by decide)]
    dsimp only
    rw [f3]
    have hb := blend_lipschitz (S := sampleQ Dq a1.pa.acc) (S' := 0) i1.sus.2.1 i1.sus.2.2.1 rd0 rd1 (le_refl _) (by norm_num)
    rw [blend_bottom i1.sus.2.2.2] at hb
    calc |a1.sustain.val - blend a1.sustain.val (sampleQ Dq a1.pa.acc)|
        ≤ |0 - sampleQ Dq a1.pa.acc| + (2 ^ (-23:ℤ) + 2 ^ (-24:ℤ)) := hb
      _ ≤ 1024 * DD * (C02.incOf a1 : ℚ) / 2 ^ 24 + (2 ^ (-23:ℤ) + 2 ^ (-29:ℤ) + (2 ^ (-23:ℤ) + 2 ^ (-24:ℤ))) := by
          linarith
  · rw [hst] at ht; simp [AdsrState.timed] at ht
  · -- release → rest
    rw [hst] at hnext
    have hn : a2.state = .atRest := hnext
    rw [v1, v2, hn, hst, if_neg (by decide)]
    dsimp only
    have hb := release_lipschitz (S := sampleQ Dq a1.pa.acc) (S' := 0) i1.off.2.1 i1.off.2.2.1 rd0 rd1 (le_refl _) (by norm_num)
    rw [mul_zero, rnd_zero] at hb
    have hnum : (2:ℚ) ^ (-24:ℤ) ≤ 2 ^ (-23:ℤ) + 2 ^ (-24:ℤ) := by norm_num
    calc |0 - rnd (a1.offLevel.val * sampleQ Dq a1.pa.acc)|
        ≤ |0 - sampleQ Dq a1.pa.acc| + 2 ^ (-24:ℤ) := hb
      _ ≤ 1024 * DD * (C02.incOf a1 : ℚ) / 2 ^ 24 + (2 ^ (-23:ℤ) + 2 ^ (-29:ℤ) + (2 ^ (-23:ℤ) + 2 ^ (-24:ℤ))) := by
          linarith

end C03
