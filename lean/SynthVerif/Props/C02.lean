import SynthVerif.Model.Adsr
/-!
# C02 — ADSR phases advance in order and last the configured time

Part 1 (this file, discrete): the transition relation is exactly the documented one, and a timed phase ends on the
first tick at which the accumulated phase reaches a full cycle, with the per-tick increment recomputed from the
*current* time on every tick while the accumulated phase is kept (= "a time changed in mid-phase rescales only the
remaining part"): `phase_end_law` states it for arbitrary sequences of ticks and parameter changes.
Part 2 (`SynthVerif.Props.C02Timing`): bounds on the increment and on the number of ticks.
-/
namespace C02
open F32

/-- the increment `tick` uses in a timed state: recomputed from the time currently configured for that state -/
def incOf (a : Adsr) : Nat := (a.pa.setPeriod a.period).inc

/-- gate-on: ignored during attack, otherwise a new attack from phase position 0, latching the current output -/
theorem gate_on (a : Adsr) :
    (a.state = .attack → a.gateOn = a) ∧
    (a.state ≠ .attack → (a.gateOn).state = .attack ∧ (a.gateOn).pa.acc = 0 ∧ (a.gateOn).onLevel = a.value ∧
      (a.gateOn).value = a.value) := by
  constructor
  · intro h; simp [Adsr.gateOn, h]
  · intro h; cases hs : a.state <;> simp_all [Adsr.gateOn, PhaseAcc.reset]

/-- gate-off: starts a release from attack, decay or sustain; ignored during release and at rest -/
theorem gate_off (a : Adsr) :
    ((a.state = .release ∨ a.state = .atRest) → a.gateOff = a) ∧
    ((a.state = .attack ∨ a.state = .decay ∨ a.state = .sustain) →
      (a.gateOff).state = .release ∧ (a.gateOff).pa.acc = 0 ∧ (a.gateOff).offLevel = a.value ∧
      (a.gateOff).value = a.value) := by
  constructor
  · rintro (h | h) <;> simp [Adsr.gateOff, h]
  · rintro (h | h | h) <;> simp [Adsr.gateOff, h, PhaseAcc.reset]

/-- parameter changes never move the phase or the state -/
theorem set_input (a : Adsr) (i : AdsrInput) :
    (a.setInput i).state = a.state ∧ (a.setInput i).pa = a.pa ∧ (a.setInput i).value = a.value := by
  cases i <;> simp [Adsr.setInput]

/-- sustain and rest persist: `tick` changes neither the state nor the phase counter -/
theorem tick_untimed (a : Adsr) (h : a.state.timed = false) :
    ∃ a', a.tick = some a' ∧ a'.state = a.state ∧ a'.pa = a.pa := by
  simp [Adsr.tick, h]

theorem pa_tick (p : PhaseAcc) (h : p.acc + p.inc < 2 ^ 32) :
    p.tick = some { p with acc := (p.acc + p.inc) % 2 ^ p.totalBits, last := (p.acc + p.inc) % 2 ^ p.totalBits,
                           rolled := p.rolled || decide (p.mask < p.acc + p.inc) } := by
  have : ¬ (p.acc + p.inc ≥ 2 ^ 32) := by omega
  simp [PhaseAcc.tick, this]

/-- **a timed phase**: `tick` panics only on u32 overflow of `accumulator + increment`; otherwise the phase ends
iff the accumulated phase reaches a full cycle (2^24) on this tick, moving to the next state from position 0;
if it does not end, the state is kept and the position advances by the increment just computed. -/
theorem tick_timed (a : Adsr) (h : a.state.timed = true) (hr : a.pa.rolled = false)
    (hno : a.pa.acc + incOf a < 2 ^ 32) :
    ∃ a', a.tick = some a' ∧ a'.pa.rolled = false ∧ a'.pa.inc = incOf a ∧
      a'.pa.totalBits = a.pa.totalBits ∧
      (if 2 ^ a.pa.totalBits ≤ a.pa.acc + incOf a
        then a'.state = a.state.next ∧ a'.pa.acc = 0
        else a'.state = a.state ∧ a'.pa.acc = a.pa.acc + incOf a) := by
  have hp : 0 < 2 ^ a.pa.totalBits := Nat.pow_pos (by decide)
  have ht := pa_tick (a.pa.setPeriod a.period) hno
  have em : (a.pa.setPeriod a.period).mask = 2 ^ a.pa.totalBits - 1 := rfl
  unfold Adsr.tick
  rw [if_pos h, ht]
  dsimp only
  have e1 : (a.pa.setPeriod a.period).acc = a.pa.acc := rfl
  have e3 : (a.pa.setPeriod a.period).rolled = a.pa.rolled := rfl
  have ei : (a.pa.setPeriod a.period).inc = incOf a := rfl
  rw [em, e1, e3, hr, ei, Bool.false_or]
  by_cases hroll : 2 ^ a.pa.totalBits ≤ a.pa.acc + incOf a
  · have hd : decide (2 ^ a.pa.totalBits - 1 < a.pa.acc + incOf a) = true := by simp; omega
    rw [hd, if_pos rfl]
    refine ⟨_, rfl, rfl, rfl, rfl, ?_⟩
    rw [if_pos hroll]
    exact ⟨rfl, rfl⟩
  · have hd : decide (2 ^ a.pa.totalBits - 1 < a.pa.acc + incOf a) = false := by simp; omega
    rw [hd, if_neg (by simp)]
    refine ⟨_, rfl, rfl, rfl, rfl, ?_⟩
    rw [if_neg hroll]
    refine ⟨rfl, ?_⟩
    show (a.pa.acc + incOf a) % 2 ^ (a.pa.setPeriod a.period).totalBits = a.pa.acc + incOf a
    exact Nat.mod_eq_of_lt (by show a.pa.acc + incOf a < 2 ^ a.pa.totalBits; omega)

/-- the documented order: the only state changes `tick` can make -/
theorem tick_order (a a' : Adsr) (h : a.tick = some a') :
    a'.state = a.state ∨ (a.state.timed = true ∧ a'.state = a.state.next) := by
  unfold Adsr.tick at h
  split at h
  · rename_i ht
    split at h
    · simp at h
    · simp only [Option.some.injEq] at h
      subst h
      dsimp only
      split
      · right; exact ⟨ht, rfl⟩
      · left; rfl
  · simp only [Option.some.injEq] at h
    subst h; left; rfl

theorem next_table : AdsrState.next .attack = .decay ∧ AdsrState.next .decay = .sustain ∧
    AdsrState.next .release = .atRest ∧ AdsrState.next .sustain = .sustain ∧ AdsrState.next .atRest = .atRest := by
  decide

/-! ### the phase-end law for arbitrary tick / parameter-change sequences -/

/-- what can happen inside one phase: ticks and parameter changes (gate events start a new phase) -/
inductive Step
  | tick
  | set (i : AdsrInput)

/-- run steps while staying in the same phase; returns the list of increments used by the ticks so far and
the state reached, or `none` on a panic -/
def runPhase (a : Adsr) : List Step → Option (Adsr × List Nat)
  | [] => some (a, [])
  | .set i :: ss => runPhase (a.setInput i) ss
  | .tick :: ss =>
    let inc := incOf a
    match a.tick with
    | none => none
    | some a' => match runPhase a' ss with
      | none => none
      | some (a'', incs) => some (a'', inc :: incs)

/-- **phase-end law.**  Start anywhere inside a timed phase.  Run any sequence of ticks and parameter changes
(no panic).  As long as the running sum of the increments the ticks used -- each computed from the time configured
*at that tick* -- stays below a full cycle, the phase has not ended and the position is exactly the start position
plus that sum.  Together with `tick_timed` (the phase ends on the tick where the sum reaches 2^24) this is the
precise meaning of "a time changed in mid-phase rescales only the remaining part of the phase". -/
theorem phase_end_law (ss : List Step) (a a' : Adsr) (incs : List Nat)
    (ht : a.state.timed = true) (hr : a.pa.rolled = false) (hb : a.pa.totalBits ≤ 32)
    (hrun : runPhase a ss = some (a', incs)) (hsum : a.pa.acc + incs.sum < 2 ^ a.pa.totalBits) :
    a'.state = a.state ∧ a'.pa.acc = a.pa.acc + incs.sum ∧ a'.pa.rolled = false := by
  induction ss generalizing a incs with
  | nil =>
    simp only [runPhase, Option.some.injEq, Prod.mk.injEq] at hrun
    obtain ⟨rfl, rfl⟩ := hrun
    simp [hr]
  | cons st ss ih =>
    cases st with
    | set i =>
      obtain ⟨e1, e2, _⟩ := set_input a i
      have := ih (a.setInput i) incs (by rw [e1]; exact ht) (by rw [e2]; exact hr) (by rw [e2]; exact hb)
        (by simpa [runPhase] using hrun) (by rw [e2]; exact hsum)
      rw [e1, e2] at this
      exact this
    | tick =>
      simp only [runPhase] at hrun
      have h32 : (2:Nat) ^ a.pa.totalBits ≤ 2 ^ 32 := Nat.pow_le_pow_right (by decide) hb
      cases htick : a.tick with
      | none => simp [htick] at hrun
      | some a1 =>
        simp only [htick] at hrun
        cases hrest : runPhase a1 ss with
        | none => simp [hrest] at hrun
        | some p =>
          obtain ⟨a2, incs'⟩ := p
          simp only [hrest, Option.some.injEq, Prod.mk.injEq] at hrun
          obtain ⟨rfl, rfl⟩ := hrun
          simp only [List.sum_cons] at hsum
          obtain ⟨a1', h1, hr1, _, htb, hcase⟩ := tick_timed a ht hr (by omega)
          rw [htick] at h1
          simp only [Option.some.injEq] at h1
          subst h1
          have hlt : ¬ (2 ^ a.pa.totalBits ≤ a.pa.acc + incOf a) := by omega
          rw [if_neg hlt] at hcase
          obtain ⟨hs1, hacc1⟩ := hcase
          have := ih a1 incs' (by rw [hs1]; exact ht) hr1 (by rw [htb]; exact hb) hrest
            (by rw [hacc1, htb]; omega)
          rw [hs1, hacc1] at this
          refine ⟨this.1, ?_, this.2.2⟩
          rw [this.2.1, List.sum_cons]; omega

/-- non-vacuity of `tick_timed` / `phase_end_law`: a 1 kHz envelope in its attack phase -/
example : (((Adsr.new (ofBits 0x447a0000)).setInput (.attack (timePeriod (ofBits 0x3dcccccd)))).gateOn).state.timed = true := by
  decide

end C02
