import SynthVerif.Props.C12
import Mathlib.Analysis.Real.Pi.Bounds
/-! The slope constant of `C12.sine_step` against the property's `2π·1.002`. -/
namespace C12
theorem slope_le : ((1024 * D : ℚ) : ℝ) ≤ 2 * Real.pi * 1.002 := by
  have h := Real.pi_gt_d6
  have e : ((1024 * D : ℚ) : ℝ) = 6.295552 := by unfold D; norm_num
  rw [e]; nlinarith
end C12
