import SynthVerif.Props.QuantLemmas
/-!
The nearest-note scan over an *ascending* candidate list returns:
the first (lowest) candidate within one half-step `H` of the input, if there is one; otherwise a candidate of minimal
distance.  (Generic in the list; core Lean only.)
-/
namespace Quantizer

/-- what the scan is supposed to return for candidates `L` -/
def Pick (L : List Nat) (vin r : Nat) : Prop :=
  r ∈ L ∧
  ((∃ c ∈ L, delta vin c < Gen.halfStepUv) →
      delta vin r < Gen.halfStepUv ∧ ∀ c ∈ L, c < r → Gen.halfStepUv ≤ delta vin c) ∧
  ((∀ c ∈ L, Gen.halfStepUv ≤ delta vin c) → ∀ c ∈ L, delta vin r ≤ delta vin c)

/-- invariant while no early exit has happened, `P` = candidates processed so far -/
def Running (vin : Nat) (P : List Nat) (s : Scan) : Prop :=
  s.done = none ∧ (∀ c ∈ P, Gen.halfStepUv ≤ delta vin c) ∧
  ((P = [] ∧ s.smallest = 2 ^ 32 - 1) ∨
   (s.nearest ∈ P ∧ s.smallest = delta vin s.nearest ∧ ∀ c ∈ P, s.smallest ≤ delta vin c))

theorem done_stays (vin : Nat) (R : List Nat) (s : Scan) (r : Nat) (h : s.done = some r) :
    (R.foldl (scanStep vin) s) = s := by
  induction R with
  | nil => rfl
  | cons c cs ih =>
    simp only [List.foldl_cons]
    have : scanStep vin s c = s := by unfold scanStep; rw [h]
    rw [this]; exact ih

theorem delta_lt_of_between {vin a c : Nat} (hac : a < c) (hc : c ≤ vin) : delta vin c < delta vin a := by
  unfold delta; split <;> split <;> omega

theorem delta_gt_above {vin c c' : Nat} (hv : vin < c) (hcc : c < c') : delta vin c < delta vin c' := by
  unfold delta; split <;> split <;> omega

theorem scan_sorted (vin : Nat) (R P : List Nat) (s : Scan)
    (hsorted : List.Pairwise (· < ·) (P ++ R)) (hbig : ∀ c ∈ P ++ R, delta vin c < 2 ^ 32 - 1)
    (hinv : Running vin P s) (hne : P ++ R ≠ []) :
    Pick (P ++ R) vin (R.foldl (scanStep vin) s).result := by
  induction R generalizing P s with
  | nil =>
    obtain ⟨hd, hall, hrest⟩ := hinv
    simp only [List.append_nil] at hne ⊢
    rcases hrest with ⟨hnil, _⟩ | ⟨hn, hsm, hmin⟩
    · exact absurd hnil hne
    · have hres : (List.foldl (scanStep vin) s []).result = s.nearest := by
        simp [Scan.result, hd]
      rw [hres]
      refine ⟨hn, ?_, ?_⟩
      · rintro ⟨c, hc, hlt⟩
        have := hall c hc; omega
      · intro _ c hc
        have := hmin c hc; omega
  | cons c R ih =>
    obtain ⟨hd, hall, hrest⟩ := hinv
    have hcmem : c ∈ P ++ c :: R := by simp
    have hcbig := hbig c hcmem
    -- sortedness facts
    have hPc : ∀ p ∈ P, p < c := by
      intro p hp
      have := List.pairwise_append.mp hsorted
      exact this.2.2 p hp c (by simp)
    have hcR : ∀ r ∈ R, c < r := by
      intro r hr
      have := (List.pairwise_append.mp hsorted).2.1
      exact (List.pairwise_cons.mp this).1 r hr
    have hPR : ∀ p ∈ P, ∀ r ∈ R, p < r := by
      intro p hp r hr
      exact (List.pairwise_append.mp hsorted).2.2 p hp r (by simp [hr])
    have hassoc : P ++ c :: R = (P ++ [c]) ++ R := by simp
    simp only [List.foldl_cons]
    by_cases h1 : delta vin c < Gen.halfStepUv
    · -- early exit 1: `c` is the first candidate within a half step
      have hstep : scanStep vin s c = { s with done := some c } := by
        unfold scanStep; rw [hd]; simp [h1]
      rw [hstep, done_stays vin R _ c rfl]
      refine ⟨by simp [Scan.result], ?_, ?_⟩
      · intro _
        refine ⟨by simpa [Scan.result] using h1, ?_⟩
        intro c' hc' hlt
        simp only [Scan.result] at hlt
        simp only [List.mem_append, List.mem_cons] at hc'
        rcases hc' with hp | rfl | hr
        · exact hall c' hp
        · omega
        · have := hcR c' hr; omega
      · intro hno
        have := hno c hcmem; omega
    · have h1' : Gen.halfStepUv ≤ delta vin c := by omega
      by_cases h2 : s.smallest < delta vin c
      · -- early exit 2: the distance started to grow; the best so far is the overall minimiser
        have hstep : scanStep vin s c = { s with done := some s.nearest } := by
          unfold scanStep; rw [hd]; simp [h1, h2]
        rw [hstep, done_stays vin R _ s.nearest rfl]
        rcases hrest with ⟨hnil, hsm⟩ | ⟨hn, hsm, hmin⟩
        · omega
        · have hnc : s.nearest < c := hPc _ hn
          have hvc : vin < c := by
            apply Nat.lt_of_not_le
            intro hle
            have := delta_lt_of_between hnc hle
            omega
          have hres : ({ s with done := some s.nearest } : Scan).result = s.nearest := by simp [Scan.result]
          rw [hres]
          have hge : ∀ c' ∈ P ++ c :: R, s.smallest ≤ delta vin c' := by
            intro c' hc'
            simp only [List.mem_append, List.mem_cons] at hc'
            rcases hc' with hp | rfl | hr
            · exact hmin c' hp
            · omega
            · have := delta_gt_above hvc (hcR c' hr); omega
          have hsmH : Gen.halfStepUv ≤ s.smallest := by rw [hsm]; exact hall _ hn
          refine ⟨by simp [hn], ?_, ?_⟩
          · rintro ⟨c', hc', hlt⟩
            have := hge c' hc'; omega
          · intro _ c' hc'
            have := hge c' hc'; omega
      · -- no exit: continue with an updated or unchanged best
        have hrun : Running vin (P ++ [c]) (scanStep vin s c) := by
          by_cases h3 : delta vin c < s.smallest
          · have hstep : scanStep vin s c = { s with smallest := delta vin c, nearest := c } := by
              unfold scanStep; rw [hd]; simp [h1, h2, h3]
            rw [hstep]
            refine ⟨hd, ?_, Or.inr ⟨by simp, rfl, ?_⟩⟩
            · intro c' hc'
              simp only [List.mem_append, List.mem_singleton] at hc'
              rcases hc' with hp | rfl
              · exact hall c' hp
              · exact h1'
            · intro c' hc'
              simp only [List.mem_append, List.mem_singleton] at hc'
              rcases hc' with hp | rfl
              · rcases hrest with ⟨hnil, _⟩ | ⟨_, _, hmin⟩
                · rw [hnil] at hp; simp at hp
                · have := hmin c' hp; simp only; omega
              · exact Nat.le_refl _
          · have hstep : scanStep vin s c = s := by
              unfold scanStep; rw [hd]; simp [h1, h2, h3]
            rw [hstep]
            refine ⟨hd, ?_, ?_⟩
            · intro c' hc'
              simp only [List.mem_append, List.mem_singleton] at hc'
              rcases hc' with hp | rfl
              · exact hall c' hp
              · exact h1'
            · rcases hrest with ⟨hnil, hsm⟩ | ⟨hn, hsm, hmin⟩
              · omega
              · refine Or.inr ⟨by simp [hn], hsm, ?_⟩
                intro c' hc'
                simp only [List.mem_append, List.mem_singleton] at hc'
                rcases hc' with hp | rfl
                · exact hmin c' hp
                · omega
        have := ih (P ++ [c]) (scanStep vin s c) (by rw [← hassoc]; exact hsorted)
          (by rw [← hassoc]; exact hbig) hrun (by simp)
        rw [← hassoc] at this
        exact this

/-- the scan from its initial state over an ascending, non-empty candidate list -/
theorem scan_pick (vin : Nat) (L : List Nat) (hsorted : List.Pairwise (· < ·) L) (hne : L ≠ [])
    (hbig : ∀ c ∈ L, delta vin c < 2 ^ 32 - 1) : Pick L vin (L.foldl (scanStep vin) {}).result := by
  have := scan_sorted vin L [] {} (by simpa using hsorted) (by simpa using hbig)
    ⟨rfl, by simp, Or.inl ⟨rfl, rfl⟩⟩ (by simpa using hne)
  simpa using this

end Quantizer
