import SynthVerif.Props.PhaseLemmas
/-!
Table look-up with linear interpolation (`utils::linear_interp`): every value decoded from a bit pattern is
representable; the interpolated sample lies between the cell's first entry and its `fraction = 1` end point and is
monotone in the fraction (op-monotonicity, P3 of DESIGN.md); and a way to lift a kernel-evaluated check over all
cells of a table to an indexed statement.
-/
namespace F32

private theorem two_ne : (2:ℚ) ≠ 0 := by norm_num

private theorem signed_rep (mag : ℚ) (sg : Bool) (h : Rep mag) :
    Rep (if (mag == 0) = true then F32.fin 0 sg else F32.fin (if sg = true then -mag else mag) false).val := by
  split
  · exact rep_zero
  · rw [val_fin]; split
    · exact rep_neg h
    · exact h

/-- every finite value decoded from a bit pattern is a binary32 number -/
theorem ofBits_rep (b : ℕ) : Rep (ofBits b).val := by
  have hm : b % 2 ^ 23 < 2 ^ 23 := Nat.mod_lt _ (by norm_num)
  -- magnitude is representable in both branches
  have hmag : Rep (if (b / 2 ^ 23 % 256 == 0) = true then (((b % 2 ^ 23 : ℕ) : ℤ) : ℚ) * pow2 (-149)
      else ((((b % 2 ^ 23 + 2 ^ 23 : ℕ)) : ℤ) : ℚ) * pow2 (((b / 2 ^ 23 % 256 : ℕ) : ℤ) - 150)) := by
    split
    · refine ⟨((b % 2 ^ 23 : ℕ) : ℤ), -149, by rw [pow2_eq], ?_, le_refl _⟩
      rw [abs_of_nonneg (by positivity)]; exact_mod_cast lt_trans hm (by norm_num)
    · rename_i h0
      have h0' : b / 2 ^ 23 % 256 ≠ 0 := by simpa using h0
      refine ⟨((b % 2 ^ 23 + 2 ^ 23 : ℕ) : ℤ), ((b / 2 ^ 23 % 256 : ℕ) : ℤ) - 150, by rw [pow2_eq], ?_, by omega⟩
      rw [abs_of_nonneg (by positivity)]
      have : b % 2 ^ 23 + 2 ^ 23 < 2 ^ 24 := by omega
      exact_mod_cast this
  unfold ofBits
  dsimp only
  by_cases he : (b / 2 ^ 23 % 256 == 255) = true
  · rw [if_pos he]
    by_cases hm0 : (b % 2 ^ 23 == 0) = true
    · rw [if_pos hm0]; exact rep_zero
    · rw [if_neg hm0]; exact rep_zero
  · rw [if_neg he]
    exact signed_rep _ _ hmag

theorem ofBits_rnd (b : ℕ) : rnd (ofBits b).val = (ofBits b).val := rnd_rep (ofBits_rep b)

/-- `lt` on finite values compares the rational values -/
theorem lt_val {x y : F32} (hx : x.isFin = true) (hy : y.isFin = true) : lt x y = decide (x.val < y.val) := by
  cases x <;> cases y <;> simp_all [lt]
  exact decide_eq_decide.mpr Iff.rfl

theorem le_val {x y : F32} (hx : x.isFin = true) (hy : y.isFin = true) : le x y = decide (x.val ≤ y.val) := by
  cases x <;> cases y <;> simp_all [le]
  exact decide_eq_decide.mpr Iff.rfl

end F32

open F32

/-- the value `linear_interp` produces, in terms of rational values and `rnd` -/
theorem linearInterp_val {y0 y1 f : F32} (h0 : y0.isFin = true) (h1 : y1.isFin = true) (hf : f.isFin = true)
    (b0 : |y0.val| ≤ 2) (b1 : |y1.val| ≤ 2) (bf0 : 0 ≤ f.val) (bf1 : f.val ≤ 1) :
    (linearInterp y0 y1 f).isFin = true ∧
    (linearInterp y0 y1 f).val = rnd (y0.val + rnd (rnd (y1.val - y0.val) * f.val)) := by
  have hd : |y1.val - y0.val| ≤ 4 := by
    have := abs_sub y1.val y0.val; linarith
  obtain ⟨s1, s2⟩ := val_sub h1 h0 (le_trans hd (by norm_num))
  have hdr : |rnd (y1.val - y0.val)| ≤ 4 := abs_rnd_le hd (by simpa using rep_int (n := 4) (by norm_num))
  have hm : |rnd (y1.val - y0.val) * f.val| ≤ 4 := by
    rw [abs_mul, abs_of_nonneg bf0]
    calc |rnd (y1.val - y0.val)| * f.val ≤ 4 * 1 := mul_le_mul hdr bf1 bf0 (by norm_num)
      _ = 4 := by norm_num
  obtain ⟨m1, m2⟩ := val_mul (x := sub y1 y0) (y := f) s1 hf (by rw [s2]; exact le_trans hm (by norm_num))
  rw [s2] at m2
  have hmr : |rnd (rnd (y1.val - y0.val) * f.val)| ≤ 4 := abs_rnd_le hm (by simpa using rep_int (n := 4) (by norm_num))
  have ha : |y0.val + rnd (rnd (y1.val - y0.val) * f.val)| ≤ 2 ^ (127:ℤ) := by
    have := abs_add_le y0.val (rnd (rnd (y1.val - y0.val) * f.val))
    have : |y0.val + rnd (rnd (y1.val - y0.val) * f.val)| ≤ 6 := by linarith
    exact le_trans this (by norm_num)
  obtain ⟨a1, a2⟩ := val_add (x := y0) (y := mul (sub y1 y0) f) h0 m1 (by rw [m2]; exact ha)
  rw [m2] at a2
  exact ⟨a1, a2⟩

/-- the interpolation formula on rationals -/
def interpQ (y0 y1 f : ℚ) : ℚ := rnd (y0 + rnd (rnd (y1 - y0) * f))

/-- monotone in the fraction when the cell rises, antitone when it falls (rounded arithmetic included) -/
theorem interpQ_mono {y0 y1 f g : ℚ} (hfg : f ≤ g) :
    (0 ≤ rnd (y1 - y0) → interpQ y0 y1 f ≤ interpQ y0 y1 g) ∧
    (rnd (y1 - y0) ≤ 0 → interpQ y0 y1 g ≤ interpQ y0 y1 f) := by
  unfold interpQ
  constructor
  · intro hd
    apply rnd_mono
    have := rnd_mono (mul_le_mul_of_nonneg_left hfg hd)
    linarith
  · intro hd
    apply rnd_mono
    have := rnd_mono (mul_le_mul_of_nonpos_left hfg hd)
    linarith

/-- at fraction 0 the sample is the table entry itself (for a representable entry) -/
theorem interpQ_zero {y0 y1 : ℚ} (h : rnd y0 = y0) : interpQ y0 y1 0 = y0 := by
  unfold interpQ; simp [rnd_zero, h]

/-- for a fraction in [0,1] the sample lies between the entry and the `fraction = 1` end point of the cell -/
theorem interpQ_between {y0 y1 f : ℚ} (h : rnd y0 = y0) (hf0 : 0 ≤ f) (hf1 : f ≤ 1) :
    min y0 (interpQ y0 y1 1) ≤ interpQ y0 y1 f ∧ interpQ y0 y1 f ≤ max y0 (interpQ y0 y1 1) := by
  have m0 := interpQ_mono (y0 := y0) (y1 := y1) hf0
  have m1 := interpQ_mono (y0 := y0) (y1 := y1) hf1
  rw [interpQ_zero h] at m0
  rcases le_total 0 (rnd (y1 - y0)) with hd | hd
  · exact ⟨le_trans (min_le_left _ _) (m0.1 hd), le_trans (m1.1 hd) (le_max_right _ _)⟩
  · exact ⟨le_trans (min_le_right _ _) (m1.2 hd), le_trans (m0.2 hd) (le_max_left _ _)⟩

/-! ### lifting a check over all cells of a table -/

/-- check `P` on all adjacent pairs of a list (kernel-friendly recursion, no random access) -/
def allPairs (P : ℕ → ℕ → Bool) : List ℕ → Bool
  | a :: b :: rest => P a b && allPairs P (b :: rest)
  | _ => true

theorem allPairs_get (P : ℕ → ℕ → Bool) (l : List ℕ) (h : allPairs P l = true) (i : ℕ) (hi : i + 1 < l.length) :
    P (l.getD i 0) (l.getD (i + 1) 0) = true := by
  induction l generalizing i with
  | nil => simp at hi
  | cons a t ih =>
    cases t with
    | nil => simp at hi
    | cons b rest =>
      simp only [allPairs, Bool.and_eq_true] at h
      cases i with
      | zero => simpa using h.1
      | succ j =>
        have := ih h.2 j (by simpa using hi)
        simpa using this

/-- check `P` on every element -/
theorem all_get (P : ℕ → Bool) (l : List ℕ) (h : l.all P = true) (i : ℕ) (hi : i < l.length) :
    P (l.getD i 0) = true := by
  rw [List.all_eq_true] at h
  have : l.getD i 0 = l[i] := by simp [List.getD, hi]
  rw [this]; exact h _ (List.getElem_mem hi)
