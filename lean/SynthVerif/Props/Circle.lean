import SynthVerif.Props.Interp
/-!
Lipschitz bounds on the phase circle: a function on the residues mod `N` whose adjacent values differ by at most `c`
moves by at most `k·c` over `k` steps (wrapping included).  Used for C03 and C12.
-/

theorem circle_lipschitz (N : ℕ) (hN : 0 < N) (f : ℕ → ℚ) (c : ℚ)
    (hadj : ∀ a, a < N → |f ((a + 1) % N) - f a| ≤ c) (a k : ℕ) (ha : a < N) :
    |f ((a + k) % N) - f a| ≤ k * c := by
  induction k with
  | zero => simp [Nat.mod_eq_of_lt ha]
  | succ k ih =>
    have hlt : (a + k) % N < N := Nat.mod_lt _ hN
    have h1 := hadj ((a + k) % N) hlt
    have e : ((a + k) % N + 1) % N = (a + (k + 1)) % N := by
      rw [Nat.add_mod, Nat.mod_mod, ← Nat.add_mod]; rfl
    rw [e] at h1
    have tri : |f ((a + (k + 1)) % N) - f a| ≤ |f ((a + (k + 1)) % N) - f ((a + k) % N)| + |f ((a + k) % N) - f a| := by
      have := abs_add_le (f ((a + (k + 1)) % N) - f ((a + k) % N)) (f ((a + k) % N) - f a)
      simpa using this
    push_cast
    linarith

/-- the ideal (unrounded) piecewise-linear interpolant of a 1024-entry table on the 2^24 phase circle;
`nxt i` is the index of the entry interpolated towards -/
def idealInterp (T : ℕ → ℚ) (nxt : ℕ → ℕ) (a : ℕ) : ℚ :=
  T (a / 2 ^ 14) + (T (nxt (a / 2 ^ 14)) - T (a / 2 ^ 14)) * ((a % 2 ^ 14 : ℕ) : ℚ) / 2 ^ 14

/-- adjacent phase-counter values inside the table (no wrap): the ideal interpolant moves by exactly one
2^-14-th of the cell height, also across a cell boundary -/
theorem idealInterp_adjacent (T : ℕ → ℚ) (a : ℕ) :
    idealInterp T (· + 1) (a + 1) - idealInterp T (· + 1) a = (T (a / 2 ^ 14 + 1) - T (a / 2 ^ 14)) / 2 ^ 14 := by
  unfold idealInterp
  by_cases hb : a % 2 ^ 14 = 2 ^ 14 - 1
  · -- crossing into the next cell
    have h1 : (a + 1) / 2 ^ 14 = a / 2 ^ 14 + 1 := by omega
    have h2 : (a + 1) % 2 ^ 14 = 0 := by omega
    rw [h1, h2, hb]
    push_cast; ring
  · have h1 : (a + 1) / 2 ^ 14 = a / 2 ^ 14 := by omega
    have h2 : (a + 1) % 2 ^ 14 = a % 2 ^ 14 + 1 := by omega
    rw [h1, h2]
    push_cast; ring
