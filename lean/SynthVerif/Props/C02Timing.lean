import SynthVerif.Props.C17
/-!
# C02, part 2 — a timed phase lasts the configured time

`inc_window`: for a clamped time `τ` and a sample rate `σ ∈ [100 Hz, 192 kHz]` the per-tick increment that
`tick` computes is the floor of `2^24/(τσ)` up to two binary32 roundings (the product `2^24 · fl(1/τ)` is exact).
With `N = τσ` (the configured duration in ticks, a real number ≥ 0.1):

    2^24/N · (1 − 2^-23) − 1  <  inc  ≤  2^24/N · (1 + 2^-22).

From this and the phase-end law of part 1 (`C02.phase_end_law`, `C02.tick_timed`):

* `never_early` / `not_late` — arbitrary time changes inside the phase: when the phase ends the ticks spent in it
  amount to the configured duration (`Σ 1/N_j ≥ 1/(1+2^-22)`), and as long as it has not ended they do not exceed
  it by more than the resolution of the 24-bit counter (`(1−2^-23)·Σ 1/N_j < 1 + k/2^24` after `k` ticks);
* `constant_time_ticks` — the closed form of the property text for an unchanged time: a phase of `N` ticks ends
  after `n` ticks with `N ≤ n·(1+2^-22)` and `n ≤ N/(1 − N/2^24) + 2`.
-/
namespace C02
open F32 AdsrL

/-- the per-tick increment is `⌊2^24/(τσ)⌋` up to two roundings -/
theorem inc_window (p : PhaseAcc) (htb : p.totalBits = 24) (τ σ : ℚ) (nz ns : Bool)
    (ht : TimeOk (.fin τ nz)) (hsr : p.sr = .fin σ ns) (s1 : 100 ≤ σ) (s2 : σ ≤ 192000) :
    16777216 / (τ * σ) * (1 - 2 ^ (-23:ℤ)) - 1 < ((p.setPeriod (.fin τ nz)).inc : ℚ) ∧
    ((p.setPeriod (.fin τ nz)).inc : ℚ) ≤ 16777216 / (τ * σ) * (1 + 2 ^ (-22:ℤ)) := by
  obtain ⟨τ', nz', he, t1, t2, trep⟩ := ht
  obtain ⟨rfl, rfl⟩ : τ = τ' ∧ nz = nz' := by injection he with a b; exact ⟨a, b⟩
  have hm := minTime_ge
  have τ0 : 0 < τ := by linarith
  have σ0 : 0 < σ := by linarith
  simp only [PhaseAcc.setPeriod, PhaseAcc.setFrequency, htb, hsr, PhaseAcc.pow2_24]
  -- f = fl(1/τ)
  have hq0 : 0 < 1 / τ := by positivity
  have hq1 : 1 / τ ≤ 1024 := by rw [div_le_iff₀ τ0]; nlinarith
  have hq2 : 3 / 64 ≤ 1 / τ := by rw [le_div_iff₀ τ0]; nlinarith
  have hone : one.val = 1 := rfl
  obtain ⟨f1, f2⟩ := val_div (x := one) (y := .fin τ nz) rfl rfl (by simpa using ne_of_gt τ0)
    (by rw [hone, val_fin, abs_of_nonneg hq0.le]; exact le_trans hq1 (by norm_num))
  rw [hone, val_fin] at f2
  have ferr : |rnd (1 / τ) - 1 / τ| ≤ 2 ^ (-24:ℤ) * (1 / τ) := by
    have := rnd_rel_err (x := 1 / τ) (by rw [abs_of_pos hq0]; exact le_trans (by norm_num) hq2)
    rwa [abs_of_pos hq0] at this
  have frep : Rep (rnd (1 / τ)) := rep_rnd _
  have flo : 3 / 64 ≤ rnd (1 / τ) :=
    le_rnd_of_le hq2 (by have := rep_div_pow2 (m := 3) (by norm_num) 6 (by norm_num); norm_num at this; exact this)
  have fhi : rnd (1 / τ) ≤ 1024 := rnd_le_of_le hq1 (by simpa using rep_int (n := 1024) (by norm_num))
  set f := rnd (1 / τ) with hf
  -- P = fl(2^24 · f) = 2^24 · f exactly
  obtain ⟨m1, m2⟩ := val_mul (x := .fin 16777216 false) (y := div one (.fin τ nz)) rfl f1
    (by rw [val_fin, f2, abs_of_nonneg (by nlinarith)]
        calc 16777216 * f ≤ 16777216 * 1024 := by nlinarith
          _ ≤ 2 ^ (127:ℤ) := by norm_num)
  rw [val_fin, f2] at m2
  have hexact : rnd (16777216 * f) = 16777216 * f := by
    have := rep_mul_pow2 frep 24
    rw [mul_comm] at this
    norm_num at this
    exact rnd_rep this
  rw [hexact] at m2
  set P := (mul (.fin 16777216 false) (div one (.fin τ nz))).val with hP
  have Plo : 786432 ≤ P := by rw [m2]; nlinarith
  have Phi : P ≤ 17179869184 := by rw [m2]; nlinarith
  -- Q = fl(P / σ)
  have Q0 : 0 < P / σ := by apply div_pos <;> linarith
  have Qlo : 4 ≤ P / σ := by rw [le_div_iff₀ σ0]; nlinarith
  have Qhi : P / σ ≤ 268435456 := by rw [div_le_iff₀ σ0]; nlinarith
  obtain ⟨d1, d2⟩ := val_div m1 (isFin_fin σ ns) (by simpa using ne_of_gt σ0)
    (by rw [← hP, val_fin, abs_of_nonneg Q0.le]; exact le_trans Qhi (by norm_num))
  rw [← hP, val_fin] at d2
  have qerr : |rnd (P / σ) - P / σ| ≤ 2 ^ (-24:ℤ) * (P / σ) := by
    have := rnd_rel_err (x := P / σ) (by rw [abs_of_pos Q0]; exact le_trans (by norm_num) Qlo)
    rwa [abs_of_pos Q0] at this
  have Rhi : rnd (P / σ) ≤ 268435456 := by
    apply rnd_le_of_le Qhi
    have := rep_pow2 (k := 28) (by norm_num); norm_num at this; exact this
  have Rlo : 4 ≤ rnd (P / σ) := le_rnd_of_le Qlo (by simpa using rep_int (n := 4) (by norm_num))
  cases hD : div (mul (.fin 16777216 false) (div one (.fin τ nz))) (.fin σ ns) with
  | nan => rw [hD] at d1; simp at d1
  | inf s => rw [hD] at d1; simp at d1
  | fin r rz =>
    rw [hD, val_fin] at d2
    have hfl := toU32_floor r rz (by rw [d2]; linarith) (by rw [d2]; exact lt_of_le_of_lt Rhi (by norm_num))
    have hcast : ((toU32 (.fin r rz) : ℕ) : ℚ) = ((⌊r⌋ : ℤ) : ℚ) := by exact_mod_cast hfl
    rw [hcast]
    have fl1 : ((⌊r⌋ : ℤ) : ℚ) ≤ r := Int.floor_le r
    have fl2 : r - 1 < ((⌊r⌋ : ℤ) : ℚ) := Int.sub_one_lt_floor r
    -- the ideal quotient `I = K·x`, `K = 2^24/σ`, `x = 1/τ`
    have h23 : (2:ℚ) ^ (-23:ℤ) = 2 * 2 ^ (-24:ℤ) := by norm_num
    have h22 : (2:ℚ) ^ (-22:ℤ) = 4 * 2 ^ (-24:ℤ) := by norm_num
    have hε0 : (0:ℚ) ≤ 2 ^ (-24:ℤ) := by positivity
    have hε1 : (2:ℚ) ^ (-24:ℤ) ≤ 1 := by norm_num
    rw [h23, h22]
    have e1 := abs_le.mp ferr
    have e2 := abs_le.mp qerr
    generalize (2:ℚ) ^ (-24:ℤ) = ε at *
    set x := 1 / τ with hx
    have K0 : 0 < 16777216 / σ := by positivity
    set K := 16777216 / σ with hK
    have hI : 16777216 / (τ * σ) = K * x := by rw [hK, hx]; field_simp
    have hPσ : P / σ = K * f := by rw [m2, hK]; ring
    rw [hI]
    rw [hPσ] at e2
    rw [d2, hPσ] at fl1 fl2 ⊢
    have f0 : 0 ≤ f := by linarith
    have Kf_hi : K * f ≤ K * (x * (1 + ε)) := by apply mul_le_mul_of_nonneg_left _ K0.le; linarith [e1.2]
    have Kf_lo : K * (x * (1 - ε)) ≤ K * f := by apply mul_le_mul_of_nonneg_left _ K0.le; linarith [e1.1]
    have Kx0 : 0 ≤ K * x := by positivity
    constructor
    · -- lower
      have r_lo : (1 - ε) * (K * f) ≤ rnd (K * f) := by linarith [e2.1]
      have step : (1 - ε) * (K * (x * (1 - ε))) ≤ (1 - ε) * (K * f) :=
        mul_le_mul_of_nonneg_left Kf_lo (by linarith)
      have sq : K * x * (1 - 2 * ε) ≤ (1 - ε) * (K * (x * (1 - ε))) := by
        have : (1 - ε) * (K * (x * (1 - ε))) = K * x * (1 - 2 * ε) + K * x * (ε * ε) := by ring
        rw [this]; linarith [mul_nonneg Kx0 (mul_nonneg hε0 hε0)]
      linarith
    · -- upper
      have r_hi : rnd (K * f) ≤ (1 + ε) * (K * f) := by linarith [e2.2]
      have step : (1 + ε) * (K * f) ≤ (1 + ε) * (K * (x * (1 + ε))) :=
        mul_le_mul_of_nonneg_left Kf_hi (by linarith)
      have sq : (1 + ε) * (K * (x * (1 + ε))) ≤ K * x * (1 + 4 * ε) := by
        have : (1 + ε) * (K * (x * (1 + ε))) = K * x * (1 + 2 * ε) + K * x * (ε * ε) := by ring
        rw [this]
        have h2 : K * x * (ε * ε) ≤ K * x * (2 * ε) := by
          apply mul_le_mul_of_nonneg_left _ Kx0
          have : ε * ε ≤ 1 * ε := mul_le_mul_of_nonneg_right hε1 hε0
          linarith
        have e : K * x * (1 + 4 * ε) = K * x * (1 + 2 * ε) + K * x * (2 * ε) := by ring
        rw [e]; linarith
      linarith

/-! ### from the increment to the duration of a phase -/

/-- the configured duration of the phase the envelope is in, in ticks (a real number, possibly below 1) -/
def ticksOf (a : Adsr) : ℚ := a.period.val * a.pa.sr.val

/-- the relation `inc_window` establishes between a duration in ticks and the increment used for it -/
def Win (N : ℚ) (inc : ℕ) : Prop :=
  16777216 / N * (1 - 2 ^ (-23:ℤ)) - 1 < (inc : ℚ) ∧ (inc : ℚ) ≤ 16777216 / N * (1 + 2 ^ (-22:ℤ))

/-- in every state satisfying the envelope invariant `C17.AOk` (which every history from `new` with a sample rate in
[100 Hz, 192 kHz] preserves, `C17.adsr_ok`) the increment the next tick uses is in the window of its duration -/
theorem win_of_ok (a : Adsr) (h : C17.AOk a) :
    25 / 256 ≤ ticksOf a ∧ ticksOf a ≤ 3840000 ∧ Win (ticksOf a) (incOf a) := by
  obtain ⟨τ, nz, hτ, t1, t2, trep⟩ := C17.period_ok a h
  obtain ⟨σ, ns, hσ, s1, s2⟩ := h.rate
  have hm := minTime_ge
  have hw := inc_window a.pa h.tb τ σ nz ns ⟨τ, nz, rfl, t1, t2, trep⟩ hσ s1 s2
  unfold ticksOf incOf Win
  rw [hτ, hσ]
  simp only [val_fin]
  refine ⟨by nlinarith, by nlinarith, hw⟩

/-- pairing of the durations in force at successive ticks with the increments those ticks used -/
def WinList : List ℚ → List ℕ → Prop
  | [], [] => True
  | N :: Ns, i :: is => 0 < N ∧ Win N i ∧ WinList Ns is
  | _, _ => False

def invSum (Ns : List ℚ) : ℚ := (Ns.map (fun N => 1 / N)).sum

@[simp] theorem invSum_nil : invSum [] = 0 := rfl
@[simp] theorem invSum_cons (N : ℚ) (Ns : List ℚ) : invSum (N :: Ns) = 1 / N + invSum Ns := by
  simp [invSum]

theorem winList_length : ∀ (Ns : List ℚ) (is : List ℕ), WinList Ns is → Ns.length = is.length
  | [], [], _ => rfl
  | _ :: Ns, _ :: is, h => by simp [winList_length Ns is h.2.2]
  | [], _ :: _, h => h.elim
  | _ :: _, [], h => h.elim

/-- the counts added never exceed the configured share of the cycle by more than the rounding of the increment -/
theorem sum_le : ∀ (Ns : List ℚ) (is : List ℕ), WinList Ns is →
    ((is.sum : ℕ) : ℚ) ≤ 16777216 * (1 + 2 ^ (-22:ℤ)) * invSum Ns
  | [], [], _ => by simp
  | N :: Ns, i :: is, h => by
    have ih := sum_le Ns is h.2.2
    have := h.2.1.2
    rw [List.sum_cons, invSum_cons]
    push_cast
    have e : 16777216 / N * (1 + 2 ^ (-22:ℤ)) = 16777216 * (1 + 2 ^ (-22:ℤ)) * (1 / N) := by ring
    rw [e] at this
    rw [mul_add]
    generalize (2:ℚ) ^ (-22:ℤ) = δ at *
    linarith
  | [], _ :: _, h => h.elim
  | _ :: _, [], h => h.elim

/-- … and fall short of it by at most one count per tick (the floor) plus the rounding -/
theorem sum_ge : ∀ (Ns : List ℚ) (is : List ℕ), WinList Ns is →
    16777216 * (1 - 2 ^ (-23:ℤ)) * invSum Ns - (is.length : ℚ) ≤ ((is.sum : ℕ) : ℚ)
  | [], [], _ => by simp
  | N :: Ns, i :: is, h => by
    have ih := sum_ge Ns is h.2.2
    have := h.2.1.1
    rw [List.sum_cons, invSum_cons, List.length_cons]
    push_cast
    have e : 16777216 / N * (1 - 2 ^ (-23:ℤ)) = 16777216 * (1 - 2 ^ (-23:ℤ)) * (1 / N) := by ring
    rw [e] at this
    rw [mul_add]
    generalize (2:ℚ) ^ (-23:ℤ) = δ at *
    linarith
  | [], _ :: _, h => h.elim
  | _ :: _, [], h => h.elim

/-- the durations (in ticks) in force at each tick of a run, mirroring `runPhase` -/
def durs (a : Adsr) : List Step → List ℚ
  | [] => []
  | .set i :: ss => durs (a.setInput i) ss
  | .tick :: ss => ticksOf a :: (match a.tick with | none => [] | some a' => durs a' ss)

/-- parameter changes as the public API produces them: times are `TimePeriod` values -/
def stepWf : Step → Prop
  | .tick => True
  | .set (.attack t) | .set (.decay t) | .set (.release t) => TimeOk t
  | .set (.sustain _) => True

theorem setInput_ok (a : Adsr) (h : C17.AOk a) (i : AdsrInput) (hw : stepWf (.set i)) : C17.AOk (a.setInput i) := by
  cases i with
  | attack t => exact ⟨h.tb, h.ib, h.rate, h.acc, h.rolled, hw, h.dec, h.rel⟩
  | decay t => exact ⟨h.tb, h.ib, h.rate, h.acc, h.rolled, h.att, hw, h.rel⟩
  | release t => exact ⟨h.tb, h.ib, h.rate, h.acc, h.rolled, h.att, h.dec, hw⟩
  | sustain s => exact ⟨h.tb, h.ib, h.rate, h.acc, h.rolled, h.att, h.dec, h.rel⟩

/-- every tick of every run uses an increment inside the window of the duration configured at that tick -/
theorem run_windows (ss : List Step) (a a' : Adsr) (incs : List ℕ) (h : C17.AOk a)
    (hw : ∀ s ∈ ss, stepWf s) (hrun : runPhase a ss = some (a', incs)) :
    WinList (durs a ss) incs ∧ C17.AOk a' := by
  induction ss generalizing a incs with
  | nil =>
    simp only [runPhase, Option.some.injEq, Prod.mk.injEq] at hrun
    obtain ⟨rfl, rfl⟩ := hrun
    exact ⟨trivial, h⟩
  | cons st ss ih =>
    cases st with
    | set i =>
      exact ih (a.setInput i) incs (setInput_ok a h i (hw _ (by simp)))
        (fun s hs => hw s (by simp [hs])) (by simpa [runPhase] using hrun)
    | tick =>
      simp only [runPhase] at hrun
      obtain ⟨a1, e1, ok1⟩ := C17.tick_ok a h
      rw [e1] at hrun
      simp only at hrun
      cases hrest : runPhase a1 ss with
      | none => simp [hrest] at hrun
      | some p =>
        obtain ⟨a2, incs'⟩ := p
        simp only [hrest, Option.some.injEq, Prod.mk.injEq] at hrun
        obtain ⟨rfl, rfl⟩ := hrun
        obtain ⟨w, ok2⟩ := ih a1 incs' ok1 (fun s hs => hw s (by simp [hs])) hrest
        obtain ⟨n1, _, win⟩ := win_of_ok a h
        refine ⟨?_, ok2⟩
        show WinList (ticksOf a :: (match a.tick with | none => [] | some a' => durs a' ss)) (incOf a :: incs')
        rw [e1]
        exact ⟨by linarith, win, w⟩

/-- **never early** (any time changes inside the phase).  Start a timed phase at position 0, run any ticks and
parameter changes during which the phase has not ended, and suppose the next tick ends it.  Then the ticks spent in
the phase -- each weighted by the duration configured at that tick -- amount to the whole phase, up to the binary32
rounding of the increment: `(1 + 2^-22) · Σ 1/N_j ≥ 1`. -/
theorem never_early (ss : List Step) (a a' : Adsr) (incs : List ℕ) (h : C17.AOk a)
    (hw : ∀ s ∈ ss, stepWf s) (hstart : a.pa.acc = 0)
    (hrun : runPhase a ss = some (a', incs)) (hend : 2 ^ 24 ≤ a.pa.acc + incs.sum + incOf a') :
    1 ≤ (1 + 2 ^ (-22:ℤ)) * (invSum (durs a ss) + 1 / ticksOf a') := by
  rw [hstart, Nat.zero_add] at hend
  obtain ⟨w, ok'⟩ := run_windows ss a a' incs h hw hrun
  have s1 := sum_le _ _ w
  obtain ⟨n1, _, win⟩ := win_of_ok a' ok'
  have hN : 0 < ticksOf a' := by linarith
  have i2 := win.2
  have e : 16777216 / ticksOf a' * (1 + 2 ^ (-22:ℤ)) = 16777216 * (1 + 2 ^ (-22:ℤ)) * (1 / ticksOf a') := by ring
  rw [e] at i2
  have hend' : (16777216 : ℚ) ≤ ((incs.sum : ℕ) : ℚ) + (incOf a' : ℚ) := by exact_mod_cast hend
  have key : (16777216:ℚ) * ((1 + 2 ^ (-22:ℤ)) * (invSum (durs a ss) + 1 / ticksOf a')) =
      16777216 * (1 + 2 ^ (-22:ℤ)) * invSum (durs a ss) + 16777216 * (1 + 2 ^ (-22:ℤ)) * (1 / ticksOf a') := by ring
  refine le_of_mul_le_mul_left (a := (16777216:ℚ)) ?_ (by norm_num)
  rw [key]
  generalize (2:ℚ) ^ (-22:ℤ) = δ at *
  linarith

/-- the hypotheses of `never_early` describe exactly the tick on which the phase ends: if the counts so far stay below
a full cycle and the next increment completes it, the next tick moves to the following state, from position 0 -/
theorem ends_on_that_tick (ss : List Step) (a a' : Adsr) (incs : List ℕ) (h : C17.AOk a)
    (hw : ∀ s ∈ ss, stepWf s) (ht : a.state.timed = true)
    (hrun : runPhase a ss = some (a', incs)) (hsum : a.pa.acc + incs.sum < 2 ^ 24)
    (hend : 2 ^ 24 ≤ a.pa.acc + incs.sum + incOf a') :
    ∃ a'', a'.tick = some a'' ∧ a''.state = a.state.next ∧ a''.pa.acc = 0 := by
  have htb := h.tb
  obtain ⟨hs, hacc, hr⟩ := phase_end_law ss a a' incs ht h.rolled (by omega) hrun (by rw [htb]; exact hsum)
  obtain ⟨_, ok'⟩ := run_windows ss a a' incs h hw hrun
  obtain ⟨_, i2⟩ := C17.inc_ok a' ok'
  obtain ⟨a'', e, _, _, _, hcase⟩ := tick_timed a' (by rw [hs]; exact ht) hr (by omega)
  rw [ok'.tb, hacc, if_pos hend, hs] at hcase
  exact ⟨a'', e, hcase.1, hcase.2⟩

/-- **not late** (any time changes inside the phase).  As long as the phase has not ended after `k` ticks, the ticks
spent do not exceed the configured duration by more than the resolution of the 24-bit counter (one count per tick)
and the rounding of the increment: `(1 − 2^-23) · Σ 1/N_j < 1 + k/2^24`. -/
theorem not_late (ss : List Step) (a a' : Adsr) (incs : List ℕ) (h : C17.AOk a)
    (hw : ∀ s ∈ ss, stepWf s)
    (hrun : runPhase a ss = some (a', incs)) (hsum : a.pa.acc + incs.sum < 2 ^ 24) :
    (1 - 2 ^ (-23:ℤ)) * invSum (durs a ss) < 1 + (incs.length : ℚ) / 16777216 := by
  obtain ⟨w, _⟩ := run_windows ss a a' incs h hw hrun
  have s2 := sum_ge _ _ w
  have hs : ((incs.sum : ℕ) : ℚ) < 16777216 := by
    have : incs.sum < 2 ^ 24 := by omega
    exact_mod_cast this
  have e : (1:ℚ) + (incs.length : ℚ) / 16777216 = (16777216 + (incs.length : ℚ)) / 16777216 := by ring
  rw [e, lt_div_iff₀ (by norm_num)]
  have key : (1 - 2 ^ (-23:ℤ)) * invSum (durs a ss) * 16777216 = 16777216 * (1 - 2 ^ (-23:ℤ)) * invSum (durs a ss) := by
    ring
  rw [key]
  generalize (2:ℚ) ^ (-23:ℤ) = δ at *
  linarith

/-- **closed form for an unchanged time** (the figure in the property text).  A phase configured to `N = t·fs`
ticks (`N ∈ [0.1, 3.84·10^6]`) whose increment is in the window ends on the `n`-th tick, where
`N ≤ n·(1 + 2^-22)` (never early) and `n ≤ N/(1 − N/2^24) + 2` (late only by the counter resolution). -/
theorem constant_time_ticks (N : ℚ) (inc n : ℕ) (hN1 : 25 / 256 ≤ N) (hN2 : N ≤ 3840000) (hw : Win N inc)
    (hn : 1 ≤ n) (hnot : (n - 1) * inc < 2 ^ 24) (hend : 2 ^ 24 ≤ n * inc) :
    N ≤ n * (1 + 2 ^ (-22:ℤ)) ∧ (n : ℚ) ≤ N / (1 - N / 16777216) + 2 := by
  have N0 : 0 < N := by linarith
  have h23 : (2:ℚ) ^ (-23:ℤ) = 1 / 8388608 := by norm_num
  have h22 : (2:ℚ) ^ (-22:ℤ) = 1 / 4194304 := by norm_num
  obtain ⟨w1, w2⟩ := hw
  rw [h23] at w1
  rw [h22] at w2 ⊢
  have hend' : (16777216 : ℚ) ≤ (n : ℚ) * inc := by exact_mod_cast hend
  have hnot' : ((n : ℚ) - 1) * inc < 16777216 := by
    have : (((n - 1 : ℕ) : ℚ)) * inc < 16777216 := by exact_mod_cast hnot
    rwa [Nat.cast_sub hn, Nat.cast_one] at this
  have n0 : (0:ℚ) ≤ (n : ℚ) - 1 := by
    have : (1:ℚ) ≤ n := by exact_mod_cast hn
    linarith
  constructor
  · -- 2^24 ≤ n·inc ≤ n·(2^24/N)(1+δ)
    have : (n : ℚ) * inc ≤ n * (16777216 / N * (1 + 1 / 4194304)) :=
      mul_le_mul_of_nonneg_left w2 (by linarith)
    have h2 : (16777216 : ℚ) ≤ n * (16777216 / N * (1 + 1 / 4194304)) := le_trans hend' this
    have e : (n : ℚ) * (16777216 / N * (1 + 1 / 4194304)) = 16777216 * (n * (1 + 1 / 4194304)) / N := by ring
    rw [e, le_div_iff₀ N0] at h2
    linarith
  · -- k = n − 1:  k·(2^24(1−e) − N) < 2^24·N
    set k := (n : ℚ) - 1 with hk
    have hL : k * (16777216 / N * (1 - 1 / 8388608) - 1) ≤ k * inc :=
      mul_le_mul_of_nonneg_left w1.le n0
    have hL2 : k * (16777216 / N * (1 - 1 / 8388608) - 1) < 16777216 := lt_of_le_of_lt hL hnot'
    have e : k * (16777216 / N * (1 - 1 / 8388608) - 1) = k * (16777214 - N) / N := by
      field_simp; ring
    rw [e, div_lt_iff₀ N0] at hL2
    -- k is below 5·10^6
    have hk1 : k * 12937214 ≤ k * (16777214 - N) := mul_le_mul_of_nonneg_left (by linarith) n0
    have hk2 : k ≤ 4979837 := by nlinarith
    -- conclusion
    have a0 : 0 < 1 - N / 16777216 := by
      have : N / 16777216 ≤ 3840000 / 16777216 := by apply div_le_div_of_nonneg_right hN2 (by norm_num)
      linarith
    have e2 : N / (1 - N / 16777216) = 16777216 * N / (16777216 - N) := by
      have : (16777216:ℚ) - N ≠ 0 := by linarith
      field_simp
    have hgoal : k - 1 ≤ 16777216 * N / (16777216 - N) := by
      rw [le_div_iff₀ (by linarith)]
      nlinarith
    rw [e2]; linarith

/-- non-vacuity of `constant_time_ticks`: the test-suite configuration 0.1 s at 1 kHz (N = 100) with the increment
the crate computes (167772) ends on tick 101, inside `[100/(1+2^-22), 100/(1−100/2^24) + 2]` -/
example : Win 100 167772 ∧ (101 - 1) * 167772 < 2 ^ 24 ∧ 2 ^ 24 ≤ 101 * 167772 := by
  refine ⟨⟨by norm_num, by norm_num⟩, by norm_num, by norm_num⟩

end C02
