import SynthVerif.Props.AdsrTableA
import SynthVerif.Props.AdsrTableD
import SynthVerif.Props.AdsrLemmas
/-!
The interpolated table sample as a function of the 24-bit phase counter: inside [0,1], monotone over the whole phase
(non-decreasing for the attack table, non-increasing for the decay table) — every one of the 2^24 positions,
reduced to the 1024 kernel-checked cells by op-monotonicity in the in-cell fraction (P3 of DESIGN.md).
-/
namespace AdsrTab
open F32

/-- the sample at phase position `acc` for a table `T` (as rationals), next index clamped at the end -/
def sampleQ (T : ℕ → ℚ) (acc : ℕ) : ℚ :=
  interpQ (T (acc / 2 ^ 14)) (T (min (acc / 2 ^ 14 + 1) 1023)) (((acc % 2 ^ 14 : ℕ) : ℚ) / 2 ^ 14)

/-- what the kernel established for every cell of a rising table -/
structure Rising (T : ℕ → ℚ) : Prop where
  rep : ∀ i, rnd (T i) = T i
  up : ∀ i, i < 1023 → 0 ≤ rnd (T (i + 1) - T i)
  fin : ∀ i, i < 1023 → interpQ (T i) (T (i + 1)) 1 ≤ T (i + 1)
  lo : 0 ≤ T 0
  hi : T 1023 ≤ 1

theorem frac_range (acc : ℕ) : (0:ℚ) ≤ ((acc % 2 ^ 14 : ℕ) : ℚ) / 2 ^ 14 ∧ ((acc % 2 ^ 14 : ℕ) : ℚ) / 2 ^ 14 ≤ 1 := by
  constructor
  · positivity
  · rw [div_le_one (by positivity)]
    have : acc % 2 ^ 14 < 2 ^ 14 := Nat.mod_lt _ (by norm_num)
    exact_mod_cast le_of_lt this

namespace Rising
variable {T : ℕ → ℚ} (h : Rising T)
include h

theorem step_le (i : ℕ) (hi : i < 1023) : T i ≤ T (i + 1) := by
  have m := (interpQ_mono (y0 := T i) (y1 := T (i + 1)) (f := 0) (g := 1) (by norm_num)).1 (h.up i hi)
  rw [interpQ_zero (h.rep i)] at m
  exact le_trans m (h.fin i hi)

theorem table_mono (i j : ℕ) (hij : i ≤ j) (hj : j ≤ 1023) : T i ≤ T j := by
  induction j with
  | zero => have : i = 0 := by omega
            subst this; exact le_refl _
  | succ j ih =>
    rcases Nat.lt_or_ge i (j + 1) with hlt | hge
    · exact le_trans (ih (by omega) (by omega)) (h.step_le j (by omega))
    · have : i = j + 1 := by omega
      subst this; exact le_refl _

/-- inside one cell: between the entry and the next entry, monotone in the position -/
theorem cell (i : ℕ) (hi : i ≤ 1023) (f g : ℚ) (hf0 : 0 ≤ f) (hfg : f ≤ g) (hg1 : g ≤ 1) :
    T i ≤ interpQ (T i) (T (min (i + 1) 1023)) f ∧
    interpQ (T i) (T (min (i + 1) 1023)) f ≤ interpQ (T i) (T (min (i + 1) 1023)) g ∧
    interpQ (T i) (T (min (i + 1) 1023)) g ≤ T (min (i + 1) 1023) := by
  by_cases hl : i < 1023
  · have e : min (i + 1) 1023 = i + 1 := by omega
    rw [e]
    have up := h.up i hl
    have m0 := (interpQ_mono (y0 := T i) (y1 := T (i + 1)) (f := 0) (g := f) hf0).1 up
    rw [interpQ_zero (h.rep i)] at m0
    have m1 := (interpQ_mono (y0 := T i) (y1 := T (i + 1)) (f := f) (g := g) hfg).1 up
    have m2 := (interpQ_mono (y0 := T i) (y1 := T (i + 1)) (f := g) (g := 1) hg1).1 up
    exact ⟨m0, m1, le_trans m2 (h.fin i hl)⟩
  · have e : i = 1023 := by omega
    subst e
    have e' : min (1023 + 1) 1023 = 1023 := by norm_num
    rw [e']
    have c : ∀ x, interpQ (T 1023) (T 1023) x = T 1023 := by
      intro x; unfold interpQ; simp [rnd_zero, h.rep 1023]
    rw [c, c]; exact ⟨le_refl _, le_refl _, le_refl _⟩

/-- **monotone over the whole phase** -/
theorem sample_mono (a b : ℕ) (hab : a ≤ b) (hb : b < 2 ^ 24) : sampleQ T a ≤ sampleQ T b := by
  unfold sampleQ
  have hia : a / 2 ^ 14 ≤ 1023 := by omega
  have hib : b / 2 ^ 14 ≤ 1023 := by omega
  obtain ⟨fa0, fa1⟩ := frac_range a
  obtain ⟨fb0, fb1⟩ := frac_range b
  by_cases hsame : a / 2 ^ 14 = b / 2 ^ 14
  · rw [hsame]
    have hf : ((a % 2 ^ 14 : ℕ) : ℚ) / 2 ^ 14 ≤ ((b % 2 ^ 14 : ℕ) : ℚ) / 2 ^ 14 := by
      apply div_le_div_of_nonneg_right _ (by positivity)
      have : a % 2 ^ 14 ≤ b % 2 ^ 14 := by omega
      exact_mod_cast this
    exact (h.cell _ hib _ _ fa0 hf fb1).2.1
  · have hlt : a / 2 ^ 14 < b / 2 ^ 14 := by
      have : a / 2 ^ 14 ≤ b / 2 ^ 14 := Nat.div_le_div_right hab
      omega
    have c1 := (h.cell _ hia _ _ fa0 (le_refl _) fa1).2.2
    have e : min (a / 2 ^ 14 + 1) 1023 = a / 2 ^ 14 + 1 := by omega
    rw [e] at c1 ⊢
    have c2 := h.table_mono (a / 2 ^ 14 + 1) (b / 2 ^ 14) (by omega) hib
    have c3 := (h.cell _ hib _ _ fb0 (le_refl _) fb1).1
    linarith

theorem sample_range (a : ℕ) (ha : a < 2 ^ 24) : 0 ≤ sampleQ T a ∧ sampleQ T a ≤ 1 := by
  unfold sampleQ
  have hia : a / 2 ^ 14 ≤ 1023 := by omega
  obtain ⟨f0, f1⟩ := frac_range a
  obtain ⟨c1, _, c3⟩ := h.cell _ hia _ _ f0 (le_refl _) f1
  have l := h.table_mono 0 (a / 2 ^ 14) (by omega) hia
  have u := h.table_mono (min (a / 2 ^ 14 + 1) 1023) 1023 (by omega) (le_refl _)
  exact ⟨by linarith [h.lo], by linarith [h.hi]⟩

end Rising

/-- mirror image for a falling table -/
structure Falling (T : ℕ → ℚ) : Prop where
  rep : ∀ i, rnd (T i) = T i
  down : ∀ i, i < 1023 → rnd (T (i + 1) - T i) ≤ 0
  fin : ∀ i, i < 1023 → T (i + 1) ≤ interpQ (T i) (T (i + 1)) 1
  hi : T 0 ≤ 1
  lo : 0 ≤ T 1023

namespace Falling
variable {T : ℕ → ℚ} (h : Falling T)
include h

theorem step_ge (i : ℕ) (hi : i < 1023) : T (i + 1) ≤ T i := by
  have m := (interpQ_mono (y0 := T i) (y1 := T (i + 1)) (f := 0) (g := 1) (by norm_num)).2 (h.down i hi)
  rw [interpQ_zero (h.rep i)] at m
  exact le_trans (h.fin i hi) m

theorem table_anti (i j : ℕ) (hij : i ≤ j) (hj : j ≤ 1023) : T j ≤ T i := by
  induction j with
  | zero => have : i = 0 := by omega
            subst this; exact le_refl _
  | succ j ih =>
    rcases Nat.lt_or_ge i (j + 1) with hlt | hge
    · exact le_trans (h.step_ge j (by omega)) (ih (by omega) (by omega))
    · have : i = j + 1 := by omega
      subst this; exact le_refl _

theorem cell (i : ℕ) (hi : i ≤ 1023) (f g : ℚ) (hf0 : 0 ≤ f) (hfg : f ≤ g) (hg1 : g ≤ 1) :
    interpQ (T i) (T (min (i + 1) 1023)) f ≤ T i ∧
    interpQ (T i) (T (min (i + 1) 1023)) g ≤ interpQ (T i) (T (min (i + 1) 1023)) f ∧
    T (min (i + 1) 1023) ≤ interpQ (T i) (T (min (i + 1) 1023)) g := by
  by_cases hl : i < 1023
  · have e : min (i + 1) 1023 = i + 1 := by omega
    rw [e]
    have dn := h.down i hl
    have m0 := (interpQ_mono (y0 := T i) (y1 := T (i + 1)) (f := 0) (g := f) hf0).2 dn
    rw [interpQ_zero (h.rep i)] at m0
    have m1 := (interpQ_mono (y0 := T i) (y1 := T (i + 1)) (f := f) (g := g) hfg).2 dn
    have m2 := (interpQ_mono (y0 := T i) (y1 := T (i + 1)) (f := g) (g := 1) hg1).2 dn
    exact ⟨m0, m1, le_trans (h.fin i hl) m2⟩
  · have e : i = 1023 := by omega
    subst e
    have e' : min (1023 + 1) 1023 = 1023 := by norm_num
    rw [e']
    have c : ∀ x, interpQ (T 1023) (T 1023) x = T 1023 := by
      intro x; unfold interpQ; simp [rnd_zero, h.rep 1023]
    rw [c, c]; exact ⟨le_refl _, le_refl _, le_refl _⟩

theorem sample_anti (a b : ℕ) (hab : a ≤ b) (hb : b < 2 ^ 24) : sampleQ T b ≤ sampleQ T a := by
  unfold sampleQ
  have hia : a / 2 ^ 14 ≤ 1023 := by omega
  have hib : b / 2 ^ 14 ≤ 1023 := by omega
  obtain ⟨fa0, fa1⟩ := frac_range a
  obtain ⟨fb0, fb1⟩ := frac_range b
  by_cases hsame : a / 2 ^ 14 = b / 2 ^ 14
  · rw [hsame]
    have hf : ((a % 2 ^ 14 : ℕ) : ℚ) / 2 ^ 14 ≤ ((b % 2 ^ 14 : ℕ) : ℚ) / 2 ^ 14 := by
      apply div_le_div_of_nonneg_right _ (by positivity)
      have : a % 2 ^ 14 ≤ b % 2 ^ 14 := by omega
      exact_mod_cast this
    exact (h.cell _ hib _ _ fa0 hf fb1).2.1
  · have hlt : a / 2 ^ 14 < b / 2 ^ 14 := by
      have : a / 2 ^ 14 ≤ b / 2 ^ 14 := Nat.div_le_div_right hab
      omega
    have c1 := (h.cell _ hia _ _ fa0 (le_refl _) fa1).2.2
    have e : min (a / 2 ^ 14 + 1) 1023 = a / 2 ^ 14 + 1 := by omega
    rw [e] at c1 ⊢
    have c2 := h.table_anti (a / 2 ^ 14 + 1) (b / 2 ^ 14) (by omega) hib
    have c3 := (h.cell _ hib _ _ fb0 (le_refl _) fb1).1
    linarith

theorem sample_range (a : ℕ) (ha : a < 2 ^ 24) : 0 ≤ sampleQ T a ∧ sampleQ T a ≤ 1 := by
  unfold sampleQ
  have hia : a / 2 ^ 14 ≤ 1023 := by omega
  obtain ⟨f0, f1⟩ := frac_range a
  obtain ⟨c1, _, c3⟩ := h.cell _ hia _ _ f0 (le_refl _) f1
  have u := h.table_anti 0 (a / 2 ^ 14) (by omega) hia
  have l := h.table_anti (min (a / 2 ^ 14 + 1) 1023) 1023 (by omega) (le_refl _)
  exact ⟨by linarith [h.lo], by linarith [h.hi]⟩

end Falling

/-! ### the two generated tables -/

def Aq (i : ℕ) : ℚ := (ofBits (Gen.attackBitsL.getD i 0)).val
def Dq (i : ℕ) : ℚ := (ofBits (Gen.decayBitsL.getD i 0)).val

theorem attack_rising : Rising Aq := by
  have cellf : ∀ i, i < 1023 → riseOk (Gen.attackBitsL.getD i 0) (Gen.attackBitsL.getD (i + 1) 0) = true :=
    fun i hi => allPairs_get riseOk Gen.attackBitsL attack_cells i (by rw [attack_len]; omega)
  refine ⟨fun i => ofBits_rnd _, ?_, ?_, ?_, ?_⟩
  · intro i hi
    have := cellf i hi
    simp only [riseOk, Bool.and_eq_true, decide_eq_true_eq] at this
    exact this.1.2
  · intro i hi
    have := cellf i hi
    simp only [riseOk, Bool.and_eq_true, decide_eq_true_eq] at this
    exact this.2
  · unfold Aq; rw [attack_first]; simp [zero]
  · unfold Aq; rw [attack_last]; simp [one]

theorem decay_falling : Falling Dq := by
  have cellf : ∀ i, i < 1023 → fallOk (Gen.decayBitsL.getD i 0) (Gen.decayBitsL.getD (i + 1) 0) = true :=
    fun i hi => allPairs_get fallOk Gen.decayBitsL decay_cells i (by rw [decay_len]; omega)
  refine ⟨fun i => ofBits_rnd _, ?_, ?_, ?_, ?_⟩
  · intro i hi
    have := cellf i hi
    simp only [fallOk, Bool.and_eq_true, decide_eq_true_eq] at this
    exact this.1.2
  · intro i hi
    have := cellf i hi
    simp only [fallOk, Bool.and_eq_true, decide_eq_true_eq] at this
    exact this.2
  · unfold Dq; rw [decay_first]; simp [one]
  · unfold Dq; rw [decay_last]; simp [zero]

end AdsrTab
