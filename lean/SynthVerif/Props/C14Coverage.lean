import SynthVerif.Props.C14
import SynthVerif.Props.C13Range
import SynthVerif.Props.Compound
/-!
# C14, part 2 — the coverage figures of the glide time

`set_time(t)` with `N = t·fs ≥ 100` samples per `t` (and `t ≤ 10 s`) selects coefficients whose per-sample factor
`c = −a1` satisfies `1/(1 + 6.4/N) ≤ c ≤ 1/(1 + 6.2/N)` (`factor_window`: the discrete RC lag with time constant
`t/2π`, through all six binary32 roundings of `set_time` and `from_params`).  With the signed contraction of the
rounded recurrence (`C13.held_signed`) and the compound-factor arithmetic of `Compound.lean` this gives, for a step
from a held level `y0` to a held input `x` (`coverage_t`, `coverage_t10`):

* after `n ≥ N` samples at most `|x − y0|/400 + r` remains  (≥ 99.75 % covered, the property asks 99.5 %),
* after `m ≥ N/10 − 1/2` samples at most `0.575·|x − y0| + r` remains (≥ 42.5 % covered, the property asks 40 %),
* after `m ≤ N/10 + 1/2` samples at least `0.47·|x − y0| − r` remains (≤ 53 % covered, the property asks 55 %),

where `r = 2^-22·M/(1 − c)` is the f32 resolution of the filter for signals of amplitude `M`.
-/
namespace C14
open F32 Glide C13

theorem two_pi_tight : (62831:ℚ) / 10000 ≤ (mul two pi32).val ∧ (mul two pi32).val ≤ 62832 / 10000 := by
  decide +kernel

/-- relative rounding error for positive normal values -/
theorem rnd_rel_pos {x : ℚ} (h : 2 ^ (-126:ℤ) ≤ x) :
    x * (1 - 1 / 16777216) ≤ rnd x ∧ rnd x ≤ x * (1 + 1 / 16777216) := by
  have x0 : 0 < x := lt_of_lt_of_le (by positivity) h
  have := rnd_rel_err (x := x) (by rwa [abs_of_pos x0])
  rw [abs_of_pos x0] at this
  have eε : (2:ℚ) ^ (-24:ℤ) = 1 / 16777216 := by norm_num
  rw [eε] at this
  obtain ⟨l, u⟩ := abs_le.mp this
  constructor <;> linarith

/-- `ω = fl(fl(2π·fl(1/τ))/σ)` is `2π/N` up to three roundings: `6.283/N ≤ ω ≤ 6.2833/N`, `N = τσ` -/
theorem omega_window (τ σ : ℚ) (hτ0 : 0 < τ) (hτ : τ ≤ 10) (hσ1 : 100 ≤ σ) (hσ2 : σ ≤ 48000) (hN : 100 ≤ τ * σ) :
    6283 / 1000 / (τ * σ) ≤ omegaQ σ (rnd (1 / τ)) ∧ omegaQ σ (rnd (1 / τ)) ≤ 62833 / 10000 / (τ * σ) := by
  obtain ⟨k1, k2⟩ := two_pi_tight
  unfold omegaQ
  set K := (mul two pi32).val with hK
  have σ0 : 0 < σ := by linarith
  have N0 : 0 < τ * σ := by linarith
  have small : (2:ℚ) ^ (-126:ℤ) ≤ 1 / 1000000 := by norm_num
  -- q = 1/τ ∈ [1/10, 480]
  have q1 : 1 / 10 ≤ 1 / τ := by rw [div_le_div_iff₀ (by norm_num) hτ0]; linarith
  have q0 : 0 < 1 / τ := by positivity
  obtain ⟨f1, f2⟩ := rnd_rel_pos (x := 1 / τ) (le_trans small (by linarith))
  set φ := rnd (1 / τ) with hφ
  have φ0 : 0 < φ := by nlinarith
  have φlo : 9 / 100 ≤ φ := by nlinarith
  -- P = fl(K φ)
  have Kφ0 : 0 < K * φ := by nlinarith
  have Kφlo : 1 / 2 ≤ K * φ := by nlinarith
  obtain ⟨p1, p2⟩ := rnd_rel_pos (x := K * φ) (le_trans small (by linarith))
  set P := rnd (K * φ) with hP
  have P0 : 0 < P := by nlinarith
  have Plo : 1 / 2 ≤ P := by nlinarith
  -- ω = fl(P/σ)
  have Q0 : 0 < P / σ := by positivity
  have Qlo : 1 / 100000 ≤ P / σ := by
    rw [le_div_iff₀ σ0]; nlinarith
  obtain ⟨w1, w2⟩ := rnd_rel_pos (x := P / σ) (le_trans small (by linarith))
  -- combine:  K/(τσ)(1−ε)^3 ≤ ω ≤ K/(τσ)(1+ε)^3
  have e1 : K * (1 / τ) / σ = K / (τ * σ) := by field_simp
  have lo3 : K / (τ * σ) * (1 - 4 * (1 / 16777216)) ≤ rnd (P / σ) := by
    have a1 : K * ((1 / τ) * (1 - 1 / 16777216)) ≤ K * φ := mul_le_mul_of_nonneg_left f1 (by linarith)
    have a2 : K * ((1 / τ) * (1 - 1 / 16777216)) * (1 - 1 / 16777216) ≤ P :=
      le_trans (mul_le_mul_of_nonneg_right a1 (by norm_num)) p1
    have a3 : K * ((1 / τ) * (1 - 1 / 16777216)) * (1 - 1 / 16777216) / σ ≤ P / σ :=
      div_le_div_of_nonneg_right a2 σ0.le
    have a4 : K * ((1 / τ) * (1 - 1 / 16777216)) * (1 - 1 / 16777216) / σ * (1 - 1 / 16777216) ≤ rnd (P / σ) :=
      le_trans (mul_le_mul_of_nonneg_right a3 (by norm_num)) w1
    have a5 : K * ((1 / τ) * (1 - 1 / 16777216)) * (1 - 1 / 16777216) / σ * (1 - 1 / 16777216) =
        K / (τ * σ) * ((1 - 1 / 16777216) * (1 - 1 / 16777216) * (1 - 1 / 16777216)) := by
      rw [← e1]; ring
    have a6 : (1 - 4 * (1 / 16777216) : ℚ) ≤ (1 - 1 / 16777216) * (1 - 1 / 16777216) * (1 - 1 / 16777216) := by norm_num
    have a7 : 0 ≤ K / (τ * σ) := by apply div_nonneg <;> linarith
    calc K / (τ * σ) * (1 - 4 * (1 / 16777216)) ≤ K / (τ * σ) * ((1 - 1 / 16777216) * (1 - 1 / 16777216) * (1 - 1 / 16777216)) :=
          mul_le_mul_of_nonneg_left a6 a7
      _ ≤ rnd (P / σ) := by rw [← a5]; exact a4
  have hi3 : rnd (P / σ) ≤ K / (τ * σ) * (1 + 4 * (1 / 16777216)) := by
    have a1 : K * φ ≤ K * ((1 / τ) * (1 + 1 / 16777216)) := mul_le_mul_of_nonneg_left f2 (by linarith)
    have a2 : P ≤ K * ((1 / τ) * (1 + 1 / 16777216)) * (1 + 1 / 16777216) :=
      le_trans p2 (mul_le_mul_of_nonneg_right a1 (by norm_num))
    have a3 : P / σ ≤ K * ((1 / τ) * (1 + 1 / 16777216)) * (1 + 1 / 16777216) / σ :=
      div_le_div_of_nonneg_right a2 σ0.le
    have a4 : rnd (P / σ) ≤ K * ((1 / τ) * (1 + 1 / 16777216)) * (1 + 1 / 16777216) / σ * (1 + 1 / 16777216) :=
      le_trans w2 (mul_le_mul_of_nonneg_right a3 (by norm_num))
    have a5 : K * ((1 / τ) * (1 + 1 / 16777216)) * (1 + 1 / 16777216) / σ * (1 + 1 / 16777216) =
        K / (τ * σ) * ((1 + 1 / 16777216) * (1 + 1 / 16777216) * (1 + 1 / 16777216)) := by
      rw [← e1]; ring
    have a6 : (1 + 1 / 16777216) * (1 + 1 / 16777216) * (1 + 1 / 16777216) ≤ (1 + 4 * (1 / 16777216) : ℚ) := by norm_num
    have a7 : 0 ≤ K / (τ * σ) := by apply div_nonneg <;> linarith
    calc rnd (P / σ) ≤ K / (τ * σ) * ((1 + 1 / 16777216) * (1 + 1 / 16777216) * (1 + 1 / 16777216)) := by rw [← a5]; exact a4
      _ ≤ K / (τ * σ) * (1 + 4 * (1 / 16777216)) := mul_le_mul_of_nonneg_left a6 a7
  have inv0 : 0 < 1 / (τ * σ) := by positivity
  constructor
  · have : 6283 / 1000 / (τ * σ) ≤ K / (τ * σ) * (1 - 4 * (1 / 16777216)) := by
      have e : K / (τ * σ) * (1 - 4 * (1 / 16777216)) = (K * (1 - 4 * (1 / 16777216))) * (1 / (τ * σ)) := by ring
      have e' : 6283 / 1000 / (τ * σ) = 6283 / 1000 * (1 / (τ * σ)) := by ring
      rw [e, e']
      apply mul_le_mul_of_nonneg_right _ inv0.le
      nlinarith
    linarith
  · have : K / (τ * σ) * (1 + 4 * (1 / 16777216)) ≤ 62833 / 10000 / (τ * σ) := by
      have e : K / (τ * σ) * (1 + 4 * (1 / 16777216)) = (K * (1 + 4 * (1 / 16777216))) * (1 / (τ * σ)) := by ring
      have e' : 62833 / 10000 / (τ * σ) = 62833 / 10000 * (1 / (τ * σ)) := by ring
      rw [e, e']
      apply mul_le_mul_of_nonneg_right _ inv0.le
      nlinarith
    linarith

/-- the per-sample factor `c = −fl(α − 1)`, `α = fl(ω/fl(ω+1))`, is `1/(1+ω)` up to `2^-24` -/
theorem c_window (ω : ℚ) (hω0 : 1 / 1000000 ≤ ω) (hω1 : ω ≤ 63 / 1000) :
    1 / (1 + ω) - 1 / 16777216 ≤ -rnd (rnd (ω / rnd (ω + 1)) - 1) ∧
    -rnd (rnd (ω / rnd (ω + 1)) - 1) ≤ 1 / (1 + ω) + 1 / 16777216 := by
  have small : (2:ℚ) ^ (-126:ℤ) ≤ 1 / 10000000 := by norm_num
  have ω0 : 0 < ω := by linarith
  obtain ⟨d1, d2⟩ := rnd_rel_pos (x := ω + 1) (le_trans small (by linarith))
  set D := rnd (ω + 1) with hD
  have D0 : 0 < D := by nlinarith
  set B := ω / (ω + 1) with hB
  have B0 : 0 ≤ B := by positivity
  have B1 : B ≤ 63 / 1000 := by
    rw [hB, div_le_iff₀ (by linarith)]; nlinarith
  have hBω : B * (ω + 1) = ω := by rw [hB]; field_simp
  have h1B : 1 - B = 1 / (1 + ω) := by rw [hB]; field_simp; ring
  -- R = ω / D
  have Rlo : B * (1 - 1 / 16777216) ≤ ω / D := by
    rw [le_div_iff₀ D0]
    have : B * (1 - 1 / 16777216) * D ≤ B * (1 - 1 / 16777216) * ((ω + 1) * (1 + 1 / 16777216)) :=
      mul_le_mul_of_nonneg_left d2 (by nlinarith)
    have e : B * (1 - 1 / 16777216) * ((ω + 1) * (1 + 1 / 16777216)) =
        (B * (ω + 1)) * ((1 - 1 / 16777216) * (1 + 1 / 16777216)) := by ring
    rw [e, hBω] at this
    nlinarith
  have Rhi : ω / D ≤ B * (1 + 2 * (1 / 16777216)) := by
    rw [div_le_iff₀ D0]
    have : B * (1 + 2 * (1 / 16777216)) * ((ω + 1) * (1 - 1 / 16777216)) ≤ B * (1 + 2 * (1 / 16777216)) * D :=
      mul_le_mul_of_nonneg_left d1 (by nlinarith)
    have e : B * (1 + 2 * (1 / 16777216)) * ((ω + 1) * (1 - 1 / 16777216)) =
        (B * (ω + 1)) * ((1 + 2 * (1 / 16777216)) * (1 - 1 / 16777216)) := by ring
    rw [e, hBω] at this
    nlinarith
  have Blo : 9 / 10000000 ≤ B := by
    rw [hB, le_div_iff₀ (by linarith)]; nlinarith
  have R0 : 1 / 10000000 ≤ ω / D := by nlinarith
  obtain ⟨a1, a2⟩ := rnd_rel_pos (x := ω / D) (le_trans small R0)
  set α := rnd (ω / D) with hα
  have αlo : B * (1 - 2 * (1 / 16777216)) ≤ α := by nlinarith
  have αhi : α ≤ B * (1 + 4 * (1 / 16777216)) := by nlinarith
  have α0 : 0 ≤ α := by nlinarith
  have α1 : α ≤ 1 / 10 := by nlinarith
  have herr : |rnd (α - 1) - (α - 1)| ≤ 2 ^ (-25:ℤ) := by
    have := rnd_err (x := α - 1) (k := 0) (by norm_num) (by rw [abs_lt]; constructor <;> linarith)
    simpa using this
  have e25 : (2:ℚ) ^ (-25:ℤ) = 1 / 16777216 / 2 := by norm_num
  rw [e25] at herr
  obtain ⟨l, u⟩ := abs_le.mp herr
  rw [← h1B]
  constructor <;> nlinarith

/-- with `ω ≈ 2π/N` the factor lies between `1/(1 + 6.4/N)` and `1/(1 + 6.2/N)` for all `100 ≤ N ≤ 480000` -/
theorem factor_window (ω N c : ℚ) (hN1 : 100 ≤ N) (hN2 : N ≤ 480000)
    (hω1 : 6283 / 1000 / N ≤ ω) (hω2 : ω ≤ 62833 / 10000 / N)
    (hc1 : 1 / (1 + ω) - 1 / 16777216 ≤ c) (hc2 : c ≤ 1 / (1 + ω) + 1 / 16777216) :
    c * (1 + 31 / 5 / N) ≤ 1 ∧ 1 ≤ c * (1 + 32 / 5 / N) := by
  have N0 : 0 < N := by linarith
  set y := 1 / N with hy
  have y0 : 0 < y := by positivity
  have y1 : y ≤ 1 / 100 := by rw [hy, div_le_div_iff₀ N0 (by norm_num)]; linarith
  have y2 : 1 / 480000 ≤ y := by rw [hy, div_le_div_iff₀ (by norm_num) N0]; linarith
  have e1 : 6283 / 1000 / N = 6283 / 1000 * y := by rw [hy]; ring
  have e2 : 62833 / 10000 / N = 62833 / 10000 * y := by rw [hy]; ring
  have e3 : 31 / 5 / N = 31 / 5 * y := by rw [hy]; ring
  have e4 : 32 / 5 / N = 32 / 5 * y := by rw [hy]; ring
  rw [e1] at hω1; rw [e2] at hω2; rw [e3, e4]
  have ω0 : 0 < ω := by nlinarith
  have ωhi : ω ≤ 63 / 1000 := by nlinarith
  have h1ω : 0 < 1 + ω := by linarith
  -- c·(1+ω) within ε(1+ω) of 1
  have inv : 1 / (1 + ω) * (1 + ω) = 1 := by field_simp
  have cu : c * (1 + ω) ≤ 1 + 1 / 16777216 * (1 + ω) := by
    have := mul_le_mul_of_nonneg_right hc2 h1ω.le
    rw [add_mul, inv] at this; exact this
  have cl : 1 - 1 / 16777216 * (1 + ω) ≤ c * (1 + ω) := by
    have := mul_le_mul_of_nonneg_right hc1 h1ω.le
    rw [sub_mul, inv] at this; exact this
  have inv_lo : 9 / 10 ≤ 1 / (1 + ω) := by
    rw [le_div_iff₀ h1ω]; linarith
  have c9 : 8 / 10 ≤ c := by linarith
  constructor
  · -- c(1+6.2y) = c(1+ω) − c(ω − 6.2y)
    have g : 8 / 10 * (83 / 1000 * y) ≤ c * (ω - 31 / 5 * y) :=
      mul_le_mul c9 (by linarith) (by positivity) (by linarith)
    have e : c * (1 + 31 / 5 * y) = c * (1 + ω) - c * (ω - 31 / 5 * y) := by ring
    rw [e]; nlinarith
  · have g : 8 / 10 * (1167 / 10000 * y) ≤ c * (32 / 5 * y - ω) :=
      mul_le_mul c9 (by linarith) (by positivity) (by linarith)
    have e : c * (1 + 32 / 5 * y) = c * (1 + ω) + c * (32 / 5 * y - ω) := by ring
    rw [e]; nlinarith

/-- `set_time(τ)` computes the factor window: for `0 < τ ≤ 10`, `100 ≤ τσ`, `100 ≤ σ ≤ 48000` -/
theorem time_factor (τ σ : ℚ) (hτ0 : 0 < τ) (hτ : τ ≤ 10) (hσ1 : 100 ≤ σ) (hσ2 : σ ≤ 48000) (hN : 100 ≤ τ * σ) :
    -rnd (alphaQ σ (rnd (1 / τ)) - 1) * (1 + 31 / 5 / (τ * σ)) ≤ 1 ∧
    1 ≤ -rnd (alphaQ σ (rnd (1 / τ)) - 1) * (1 + 32 / 5 / (τ * σ)) := by
  obtain ⟨w1, w2⟩ := omega_window τ σ hτ0 hτ hσ1 hσ2 hN
  have N0 : 0 < τ * σ := by linarith
  have N2 : τ * σ ≤ 480000 := by nlinarith
  have hlo : 1 / 1000000 ≤ omegaQ σ (rnd (1 / τ)) := by
    refine le_trans ?_ w1
    rw [le_div_iff₀ N0]; linarith
  have hhi : omegaQ σ (rnd (1 / τ)) ≤ 63 / 1000 := by
    refine le_trans w2 ?_
    rw [div_le_iff₀ N0]; linarith
  obtain ⟨c1, c2⟩ := c_window _ hlo hhi
  exact factor_window _ (τ * σ) _ hN N2 w1 w2 c1 c2

theorem clamp_mid (m b d : ℚ) (nd : Bool) (hm : m ≤ d) (hb : d ≤ b) :
    C20.clampSpec (.fin m false) (.fin b false) (.fin d nd) = .fin d nd := by
  have h1 : ¬ d < m := not_lt.mpr hm
  have h2 : ¬ b < d := not_lt.mpr hb
  simp [C20.clampSpec, lt, h1, h2]

/-- **`set_time(τ)` with at least 100 samples per `τ ≤ 10 s`, when honoured**: the new coefficients are
`b0 = alphaQ fs fl(1/τ)`, `a1 = fl(b0 − 1)`; the filter memory is untouched -/
theorem setTime_mid (g : Glide) (σ : ℚ) (ns : Bool) (h : CInv g σ ns) (τ : ℚ) (nt : Bool)
    (hτ0 : 0 < τ) (hτ : τ ≤ 10) (hN : 100 ≤ τ * σ) (hni : ignored g (.fin τ nt) = false) :
    ∃ g', g.setTime (.fin τ nt) = some g' ∧ CInv g' σ ns ∧ g'.y1 = g.y1 ∧ g'.x1 = g.x1 ∧ g'.x2 = g.x2 ∧ g'.y2 = g.y2 ∧
      g'.coeffs.b0.val = alphaQ σ (rnd (1 / τ)) ∧ g'.coeffs.a1.val = rnd (g'.coeffs.b0.val - 1) := by
  obtain ⟨g', e, c', x1, x2, y1, y2⟩ := setTime_inv g σ ns h (.fin τ nt)
  refine ⟨g', e, c', y1, x1, x2, y2, ?_⟩
  obtain ⟨_, _, _, _, _, hco⟩ := (setTime_cache g (.fin τ nt)).2 hni g' e
  obtain ⟨m1, m2, m3, m4⟩ := C13.minFc_val
  have hσ0 : 0 < σ := by linarith [h.lo]
  have hσ : (ofRat (1 / 10)).val < σ / 2 := by linarith [h.lo]
  have hcl := C20.max_min_clamp (ofRat (1 / 10)).val (σ / 2) (by linarith) (by linarith [h.lo]) hσ (div one (.fin τ nt))
  have hcut : fmin (fmax (div one (.fin τ nt)) g.minFc) g.maxFc =
      C20.clampSpec (.fin (ofRat (1 / 10)).val false) (.fin (σ / 2) false) (div one (.fin τ nt)) := by
    rw [h.minFc, h.maxFc]; rw [m4] at *; exact hcl
  -- the quotient
  have q1 : (1:ℚ) / 10 ≤ 1 / τ := by rw [div_le_div_iff₀ (by norm_num) hτ0]; linarith
  have q2 : 1 / τ ≤ σ / 100 := by
    rw [div_le_div_iff₀ hτ0 (by norm_num)]; linarith
  have hone : one = .fin 1 false := rfl
  have hd : div one (.fin τ nt) = round (1 / τ) ((F32.fin (1:ℚ) false).sign != (F32.fin τ nt).sign) := by
    rw [hone, div_fin _ _ _ _ (ne_of_gt hτ0)]
  have hv : (ofRat (1 / 10)).val = rnd (1 / 10) := by decide +kernel
  have hpos : 0 < rnd (1 / τ) := by
    have : rnd (1 / 10) ≤ rnd (1 / τ) := rnd_mono q1
    rw [← hv] at this; linarith
  have hbig : (1:ℚ) / τ ≤ 2 ^ (127:ℤ) := le_trans q2 (le_trans (by linarith [h.hi]) (by norm_num : (480:ℚ) ≤ 2 ^ (127:ℤ)))
  have hov : |rnd (1 / τ)| < 2 ^ (128:ℤ) := no_overflow (by rw [abs_of_nonneg (by positivity)]; exact hbig)
  have hdiv : ∃ nd, div one (.fin τ nt) = .fin (rnd (1 / τ)) nd := by
    rw [hd, round_def, qabs_eq, pow2_eq, if_neg (not_le.mpr hov)]
    have hne : (rnd (1 / τ) == 0) = false := by simpa using ne_of_gt hpos
    rw [hne]
    exact ⟨_, rfl⟩
  obtain ⟨nd, hdv⟩ := hdiv
  have r2 : Rep (σ / 2) := rep_half h.rep (by linarith [h.lo])
  have hup : rnd (1 / τ) ≤ σ / 2 := rnd_le_of_le (by linarith) r2
  have hlow : (ofRat (1 / 10)).val ≤ rnd (1 / τ) := by rw [hv]; exact rnd_mono q1
  rw [hcut, hdv, clamp_mid _ _ _ _ hlow hup, h.fs] at hco
  obtain ⟨c, hc, _, _, _, _, _, _, _, _, _, _, _, hb0, ha1⟩ :=
    mkCoeffs_full σ (rnd (1 / τ)) ns nd (by linarith [h.hi]) (by linarith) (by linarith) h.rep (rep_rnd _)
  rw [hc] at hco
  simp only [Option.some.injEq] at hco
  rw [hco]
  exact ⟨hb0, ha1⟩

/-- **coverage of a step** for a filter whose factor `c = −a1` is in the window of `N` samples per `t`.
`y k` is the output after `k` samples of the held input `x`, `y 0` the level before the step. -/
theorem coverage (g : Glide) (σ : ℚ) (ns : Bool) (M : ℚ) (hM : 1 ≤ M) (hM' : M ≤ 2 ^ (58:ℤ))
    (h : CInv g σ ns) (hs : SInv M g) (hy : |g.y1.val| ≤ 3 / 2 * M)
    (N : ℚ) (hN : 100 ≤ N)
    (hf1 : -g.coeffs.a1.val * (1 + 31 / 5 / N) ≤ 1) (hf2 : 1 ≤ -g.coeffs.a1.val * (1 + 32 / 5 / N))
    (x : F32) (hx : x.isFin = true) (hxM : |x.val| ≤ M) :
    let y := fun k => ((fun s => (Glide.process s x).1)^[k] g).y1.val
    let r := 2 ^ (-22:ℤ) * M / (1 - -g.coeffs.a1.val)
    (∀ n : ℕ, N ≤ n → |y n - x.val| ≤ |y 0 - x.val| / 400 + r) ∧
    (∀ m : ℕ, N / 10 - 1 / 2 ≤ m → |y m - x.val| ≤ 23 / 40 * |y 0 - x.val| + r) ∧
    (∀ m : ℕ, (m:ℚ) ≤ N / 10 + 1 / 2 → 47 / 100 * |y 0 - x.val| - r ≤ |y m - x.val|) := by
  intro y r
  have c0 : 0 ≤ -g.coeffs.a1.val := by linarith [h.a1hi]
  have key : ∀ k, y k = iter g.coeffs.b0.val g.coeffs.a1.val x.val g.y1.val k := by
    intro k
    obtain ⟨g', _, _, _, hg, hy'⟩ := held_input_iter g σ ns M hM hM' h hs x hx hxM k
    show ((fun s => (Glide.process s x).1)^[k] g).y1.val = _
    rw [← hg, hy']
  have y0 : y 0 = g.y1.val := rfl
  have sg : ∀ k, |y k - x.val - (-g.coeffs.a1.val) ^ k * (g.y1.val - x.val)| ≤ r := by
    intro k
    rw [key k]
    exact held_signed h.b0lo h.b0hi h.a1hi h.sum h.sum' (le_trans (by norm_num) hM) hxM hy k
  -- |y k − x| is within r of c^k·|d0|
  have two : ∀ k, |y k - x.val| ≤ (-g.coeffs.a1.val) ^ k * |g.y1.val - x.val| + r ∧
      (-g.coeffs.a1.val) ^ k * |g.y1.val - x.val| - r ≤ |y k - x.val| := by
    intro k
    have hk := sg k
    have hp : 0 ≤ (-g.coeffs.a1.val) ^ k := pow_nonneg c0 k
    have e : |(-g.coeffs.a1.val) ^ k * (g.y1.val - x.val)| = (-g.coeffs.a1.val) ^ k * |g.y1.val - x.val| := by
      rw [abs_mul, abs_of_nonneg hp]
    have t1 := abs_sub_abs_le_abs_sub (y k - x.val) ((-g.coeffs.a1.val) ^ k * (g.y1.val - x.val))
    have t2 : |(-g.coeffs.a1.val) ^ k * (g.y1.val - x.val)| - |y k - x.val| ≤
        |y k - x.val - (-g.coeffs.a1.val) ^ k * (g.y1.val - x.val)| := by
      rw [abs_sub_comm (y k - x.val)]; exact abs_sub_abs_le_abs_sub _ _
    rw [e] at t1 t2
    constructor <;> linarith
  have d0 : 0 ≤ |g.y1.val - x.val| := abs_nonneg _
  rw [y0]
  refine ⟨?_, ?_, ?_⟩
  · intro n hn
    have hp := Cov.resid_t _ N n c0 hN hf1 hn
    have := mul_le_mul_of_nonneg_right hp d0
    linarith [(two n).1]
  · intro m hm
    have hp := Cov.resid_t10_le _ N m c0 hN hf1 hm
    have := mul_le_mul_of_nonneg_right hp d0
    linarith [(two m).1]
  · intro m hm
    have hp := Cov.resid_t10_ge _ N m hN hf2 hm
    have := mul_le_mul_of_nonneg_right hp d0
    linarith [(two m).2]

/-- **C14, the coverage figures.**  Sample rate `σ ∈ [100, 48000]` Hz, any state `g` reached with signals of amplitude
`M`; `set_time(τ)` honoured, with `τ ≤ 10 s` and at least 100 samples per `τ`.  Then a step of the (held) input from
the present output level `y 0` to `x` is covered as follows, `r` being the f32 resolution of the filter:
after `τ` seconds (`n ≥ τσ` samples) at most `1/400` of the step (+`r`) remains; after `τ/10` (any sample count within
half a sample of `τσ/10`) between 47 % (−`r`) and 57.5 % (+`r`) of it remains, i.e. 42.5 % … 53 % is covered. -/
theorem glide_time_coverage (g : Glide) (σ : ℚ) (ns : Bool) (M : ℚ) (hM : 1 ≤ M) (hM' : M ≤ 2 ^ (58:ℤ))
    (h : CInv g σ ns) (hs : SInv M g) (hy : |g.y1.val| ≤ 3 / 2 * M)
    (τ : ℚ) (nt : Bool) (hτ0 : 0 < τ) (hτ : τ ≤ 10) (hN : 100 ≤ τ * σ) (hni : ignored g (.fin τ nt) = false)
    (x : F32) (hx : x.isFin = true) (hxM : |x.val| ≤ M) :
    ∃ g', g.setTime (.fin τ nt) = some g' ∧
      let y := fun k => ((fun s => (Glide.process s x).1)^[k] g').y1.val
      let r := 2 ^ (-22:ℤ) * M / (1 - -g'.coeffs.a1.val)
      y 0 = g.y1.val ∧
      (∀ n : ℕ, τ * σ ≤ n → |y n - x.val| ≤ |y 0 - x.val| / 400 + r) ∧
      (∀ m : ℕ, τ * σ / 10 - 1 / 2 ≤ m → |y m - x.val| ≤ 23 / 40 * |y 0 - x.val| + r) ∧
      (∀ m : ℕ, (m:ℚ) ≤ τ * σ / 10 + 1 / 2 → 47 / 100 * |y 0 - x.val| - r ≤ |y m - x.val|) := by
  obtain ⟨g', e, c', y1, x1, x2, y2, hb0, ha1⟩ := setTime_mid g σ ns h τ nt hτ0 hτ hN hni
  obtain ⟨f1, f2⟩ := time_factor τ σ hτ0 hτ h.lo h.hi hN
  have hc : -g'.coeffs.a1.val = -rnd (alphaQ σ (rnd (1 / τ)) - 1) := by rw [ha1, hb0]
  rw [← hc] at f1 f2
  have hs' : SInv M g' := by
    obtain ⟨s1, s2, s3, s4, s5⟩ := hs
    exact ⟨by rw [x1]; exact s1, by rw [x2]; exact s2, by rw [y1]; exact s3, by rw [y2]; exact s4, by rw [y1]; exact s5⟩
  have cov := coverage g' σ ns M hM hM' c' hs' (by rw [y1]; exact hy) (τ * σ) hN f1 f2 x hx hxM
  refine ⟨g', e, ?_⟩
  intro y r
  exact ⟨by show g'.y1.val = g.y1.val; rw [y1], cov.1, cov.2.1, cov.2.2⟩

/-! ### the fastest setting -/

/-- at the cut-off `fs/2` (glide off, and every time below two samples) the factor is at most 1/4 -/
theorem fast_factor (σ : ℚ) (hσ1 : 100 ≤ σ) (hσ2 : σ ≤ 48000) :
    -rnd (alphaQ σ (σ / 2) - 1) ≤ 1 / 4 ∧ 0 ≤ -rnd (alphaQ σ (σ / 2) - 1) := by
  obtain ⟨k1, k2⟩ := two_pi_tight
  unfold alphaQ omegaQ
  set K := (mul two pi32).val with hK
  have σ0 : 0 < σ := by linarith
  have small : (2:ℚ) ^ (-126:ℤ) ≤ 1 / 1000000 := by norm_num
  have hKσ : 300 ≤ K * (σ / 2) := by nlinarith
  obtain ⟨p1, p2⟩ := rnd_rel_pos (x := K * (σ / 2)) (le_trans small (by linarith))
  set P := rnd (K * (σ / 2)) with hP
  have Plo : 31415 / 10000 * σ ≤ P := by nlinarith
  have Phi : P ≤ 31417 / 10000 * σ := by nlinarith
  have Qlo : 31415 / 10000 ≤ P / σ := by rw [le_div_iff₀ σ0]; exact Plo
  have Qhi : P / σ ≤ 31417 / 10000 := by rw [div_le_iff₀ σ0]; exact Phi
  obtain ⟨w1, w2⟩ := rnd_rel_pos (x := P / σ) (le_trans small (by linarith))
  set ω := rnd (P / σ) with hω
  have ωlo : 3141 / 1000 ≤ ω := by nlinarith
  have ωhi : ω ≤ 3142 / 1000 := by nlinarith
  obtain ⟨d1, d2⟩ := rnd_rel_pos (x := ω + 1) (le_trans small (by linarith))
  set D := rnd (ω + 1) with hD
  have Dlo : 414 / 100 ≤ D := by nlinarith
  have Dhi : D ≤ 4143 / 1000 := by nlinarith
  have D0 : 0 < D := by linarith
  have Rlo : 758 / 1000 ≤ ω / D := by rw [le_div_iff₀ D0]; nlinarith
  have Rhi : ω / D ≤ 759 / 1000 := by rw [div_le_iff₀ D0]; nlinarith
  obtain ⟨a1, a2⟩ := rnd_rel_pos (x := ω / D) (le_trans small (by linarith))
  set α := rnd (ω / D) with hα
  have αlo : 757 / 1000 ≤ α := by nlinarith
  have αhi : α ≤ 76 / 100 := by nlinarith
  have herr : |rnd (α - 1) - (α - 1)| ≤ 2 ^ (-25:ℤ) := by
    have := rnd_err (x := α - 1) (k := 0) (by norm_num) (by rw [abs_lt]; constructor <;> linarith)
    simpa using this
  have e25 : (2:ℚ) ^ (-25:ℤ) = 1 / 33554432 := by norm_num
  rw [e25] at herr
  obtain ⟨l, u⟩ := abs_le.mp herr
  constructor <;> linarith

/-- **the fastest response settles within 8 samples**: when the cut-off in effect is `fs/2` (after `set_time(0)` or
any time below two samples, `short_times_equal`) at most `4^-8 ≈ 1.5·10^-5` of a step (+`r`) remains after 8 samples -/
theorem fastest_settles (g : Glide) (σ : ℚ) (ns : Bool) (M : ℚ) (hM : 1 ≤ M) (hM' : M ≤ 2 ^ (58:ℤ))
    (h : CInv g σ ns) (hs : SInv M g) (hy : |g.y1.val| ≤ 3 / 2 * M)
    (t : F32) (hcut : cutoffOf g t = .fin (σ / 2) false) (hni : ignored g t = false)
    (x : F32) (hx : x.isFin = true) (hxM : |x.val| ≤ M) :
    ∃ g', g.setTime t = some g' ∧
      |((fun s => (Glide.process s x).1)^[8] g').y1.val - x.val| ≤
        |g.y1.val - x.val| / 65536 + 2 ^ (-22:ℤ) * M / (1 - -g'.coeffs.a1.val) := by
  obtain ⟨g', e, c', x1, x2, y1, y2⟩ := setTime_inv g σ ns h t
  refine ⟨g', e, ?_⟩
  obtain ⟨_, _, _, _, _, hco⟩ := (setTime_cache g t).2 hni g' e
  have hco' : some g'.coeffs = mkCoeffs g.fs (cutoffOf g t) := hco
  rw [hcut, h.fs] at hco'
  have r2 : Rep (σ / 2) := rep_half h.rep (by linarith [h.lo])
  obtain ⟨c, hc, _, _, _, _, _, _, _, _, _, _, _, hb0, ha1⟩ :=
    mkCoeffs_full σ (σ / 2) ns false (by linarith [h.hi]) (by linarith [h.lo]) (by linarith) h.rep r2
  rw [hc] at hco'
  simp only [Option.some.injEq] at hco'
  obtain ⟨f1, f0⟩ := fast_factor σ h.lo h.hi
  have hcv : -g'.coeffs.a1.val = -rnd (alphaQ σ (σ / 2) - 1) := by rw [hco', ha1, hb0]
  rw [← hcv] at f1 f0
  have hs' : SInv M g' := by
    obtain ⟨s1, s2, s3, s4, s5⟩ := hs
    exact ⟨by rw [x1]; exact s1, by rw [x2]; exact s2, by rw [y1]; exact s3, by rw [y2]; exact s4, by rw [y1]; exact s5⟩
  have conv := held_input_converges g' σ ns M hM hM' c' hs' (by rw [y1]; exact hy) x hx hxM 8
  rw [y1] at conv
  have hp : (-g'.coeffs.a1.val) ^ 8 ≤ (1 / 4) ^ 8 := pow_le_pow_left₀ f0 f1 8
  have := mul_le_mul_of_nonneg_right hp (abs_nonneg (g.y1.val - x.val))
  have e8 : ((1:ℚ) / 4) ^ 8 = 1 / 65536 := by norm_num
  rw [e8] at this
  linarith

end C14
