import SynthVerif.Props.C17
/-!
# C17, LFO: no call panics in any history with in-range arguments

`C17.lfo_tick_ok` / `lfo_freq_ok` are one-step statements.  This file lifts them to every history: from `Lfo::new(σ)` with
a positive finite sample rate, any interleaving of `tick`, `reset`, `set_phase(p)` (any `f32`, NaN and ±∞ included) and
`set_frequency(φ)` with `0 ≤ φ ≤ σ` runs without a panic — the invariant carried along is `increment < 2^31`.
-/
open F32
namespace C17

/-- in-range arguments: frequencies in `[0, sample rate]`; phases are unrestricted -/
def lfoOpWf (σ : ℚ) : C10.Op → Prop
  | .setFrequency (.fin φ _) => 0 ≤ φ ∧ φ ≤ σ ∧ Rep φ
  | .setFrequency _ => False
  | _ => True

structure LInv (σ : ℚ) (ns : Bool) (l : Lfo) : Prop where
  ok : C10.Ok l
  sr : l.pa.sr = .fin σ ns
  inc : l.pa.inc < 2 ^ 31

theorem lfo_new_inv (σ : ℚ) (ns : Bool) : LInv σ ns (Lfo.new (.fin σ ns)) :=
  ⟨C10.new_ok _, rfl, by simp [Lfo.new, PhaseAcc.new]⟩

theorem lfo_history_ok (σ : ℚ) (ns : Bool) (hσ : 0 < σ) (hσ' : σ ≤ 2 ^ (100:ℤ)) (ops : List C10.Op)
    (hw : ∀ o ∈ ops, lfoOpWf σ o) (l : Lfo) (h : LInv σ ns l) :
    ∃ l', C10.runOps l ops = some l' ∧ LInv σ ns l' := by
  induction ops generalizing l with
  | nil => exact ⟨l, rfl, h⟩
  | cons o os ih =>
    have hw' : ∀ o ∈ os, lfoOpWf σ o := fun x hx => hw x (by simp [hx])
    have hwo := hw o (by simp)
    cases o with
    | tick =>
      obtain ⟨l1, e1, ok1⟩ := lfo_tick_ok l h.ok h.inc
      have hr : C10.runOps l (.tick :: os) = C10.runOps l1 os := by
        show (match l.tick with | none => none | some l' => C10.runOps l' os) = _
        rw [e1]
      rw [hr]
      refine ih hw' l1 ⟨ok1, ?_, ?_⟩
      · have := e1
        simp only [Lfo.tick, PhaseAcc.tick] at this
        split at this
        · simp at this
        · simp only [Option.map_some, Option.some.injEq] at this
          subst this; exact h.sr
      · have := (C11.tick_advance l l1 e1).2
        rw [this]; exact h.inc
    | setFrequency f =>
      cases f with
      | nan => exact absurd hwo (by simp [lfoOpWf])
      | inf s => exact absurd hwo (by simp [lfoOpWf])
      | fin φ nf =>
        obtain ⟨h0, h1, hrep⟩ := hwo
        have hinc := lfo_freq_ok l h.ok φ σ nf ns h.sr h0 h1 hσ hσ' hrep
        exact ih hw' (l.setFrequency (.fin φ nf)) ⟨⟨h.ok.tb, h.ok.ib, h.ok.acc⟩, h.sr, hinc⟩
    | setPhase p =>
      exact ih hw' (l.setPhase p) ⟨C10.setPhase_ok l h.ok p, h.sr, h.inc⟩
    | reset =>
      exact ih hw' l.reset ⟨⟨h.ok.tb, h.ok.ib, by simp [Lfo.reset, PhaseAcc.reset]⟩, h.sr, h.inc⟩

/-- from the constructor -/
theorem lfo_ok (σ : ℚ) (ns : Bool) (hσ : 0 < σ) (hσ' : σ ≤ 2 ^ (100:ℤ)) (ops : List C10.Op)
    (hw : ∀ o ∈ ops, lfoOpWf σ o) : ∃ l', C10.runOps (Lfo.new (.fin σ ns)) ops = some l' ∧ C10.Ok l' := by
  obtain ⟨l', e, i⟩ := lfo_history_ok σ ns hσ hσ' ops hw _ (lfo_new_inv σ ns)
  exact ⟨l', e, i.ok⟩

/-- non-vacuity: 1 kHz oscillator, 250 Hz, a huge and a NaN phase, ticks in between -/
example : (C10.runOps (Lfo.new (ofBits 0x447a0000))
    [.setFrequency (ofBits 0x437a0000), .tick, .setPhase (ofBits 0x7f000000), .tick, .setPhase .nan, .tick, .reset, .tick]).isSome = true := by
  decide +kernel

end C17
