import Mathlib.Analysis.Complex.ExponentialBounds
import Mathlib.Tactic.Linarith
import Mathlib.Tactic.NormNum
import Mathlib.Tactic.Ring
import Mathlib.Tactic.Positivity
import Mathlib.Tactic.FieldSimp
/-!
Real-analysis facts about `exp` used by the curve-fidelity clause of C01 (`C01Fidelity.lean`): Lipschitz and chord
bounds for `exp(−·)`, Taylor enclosures of `exp(−4/1023)` and `exp(−4/3069)` (the per-entry ratios of the decay and
attack tables), and enclosures of `exp(−4)` and `exp(−4/3)` from Mathlib's bounds on `e`.
-/
namespace Fid
open Real

/-- `exp(−·)` is 1-Lipschitz on `[0, ∞)` -/
theorem exp_neg_lipschitz {a b : ℝ} (ha : 0 ≤ a) (hb : 0 ≤ b) : |exp (-a) - exp (-b)| ≤ |a - b| := by
  wlog h : a ≤ b generalizing a b
  · have := this hb ha (le_of_lt (not_le.mp h))
    rwa [abs_sub_comm, abs_sub_comm b a] at this
  have h1 : exp (-b) ≤ exp (-a) := exp_le_exp.mpr (by linarith)
  rw [abs_of_nonneg (by linarith), abs_of_nonpos (by linarith)]
  -- e^{-a} − e^{-b} = e^{-a}(1 − e^{-(b−a)}) ≤ 1·(b − a)
  have e : exp (-b) = exp (-a) * exp (-(b - a)) := by rw [← exp_add]; congr 1; ring
  have h2 : 1 - (b - a) ≤ exp (-(b - a)) := by
    have := add_one_le_exp (-(b - a)); linarith
  have h3 : exp (-a) ≤ 1 := by rw [← exp_zero]; exact exp_le_exp.mpr (by linarith)
  have h4 : 0 < exp (-a) := exp_pos _
  rw [e]
  nlinarith

/-- for `0 ≤ t ≤ 1`: `1 − t ≤ exp(−t) ≤ 1 − t + t²` -/
theorem exp_neg_quad {t : ℝ} (h0 : 0 ≤ t) (h1 : t ≤ 1) : 1 - t ≤ exp (-t) ∧ exp (-t) ≤ 1 - t + t ^ 2 := by
  constructor
  · have := add_one_le_exp (-t); linarith
  · have := abs_exp_sub_one_sub_id_le (x := -t) (by rw [abs_neg, abs_of_nonneg h0]; exact h1)
    have := (abs_le.mp this).2
    nlinarith

/-- chord of `exp(−·)` over `[0, t]` versus the function: within `t²` -/
theorem chord_exp {t θ : ℝ} (h0 : 0 ≤ t) (h1 : t ≤ 1) (θ0 : 0 ≤ θ) (θ1 : θ ≤ 1) :
    |(1 - θ) + θ * exp (-t) - exp (-(θ * t))| ≤ t ^ 2 := by
  obtain ⟨a1, a2⟩ := exp_neg_quad h0 h1
  have hθt0 : 0 ≤ θ * t := by positivity
  have hθt1 : θ * t ≤ 1 := by nlinarith
  obtain ⟨b1, b2⟩ := exp_neg_quad hθt0 hθt1
  have hsq : (θ * t) ^ 2 ≤ t ^ 2 := by
    have : θ * t ≤ t := by nlinarith
    exact pow_le_pow_left₀ hθt0 this 2
  rw [abs_le]
  constructor <;> nlinarith

/-- Taylor enclosure of `exp x` for small `|x|` with five terms -/
theorem exp_taylor5 {x : ℝ} (hx : |x| ≤ 1 / 100) :
    |exp x - (1 + x + x ^ 2 / 2 + x ^ 3 / 6 + x ^ 4 / 24)| ≤ 1 / 10 ^ 12 := by
  have h := exp_bound (x := x) (le_trans hx (by norm_num)) (n := 5) (by norm_num)
  have hs : (∑ m ∈ Finset.range 5, x ^ m / (m.factorial : ℝ)) = 1 + x + x ^ 2 / 2 + x ^ 3 / 6 + x ^ 4 / 24 := by
    simp [Finset.sum_range_succ, Nat.factorial]
  rw [hs] at h
  refine le_trans h ?_
  have h5 : |x| ^ 5 ≤ (1 / 100) ^ 5 := pow_le_pow_left₀ (abs_nonneg x) hx 5
  have : |x| ^ 5 * ((Nat.succ 5 : ℕ) / ((Nat.factorial 5 : ℕ) * (5 : ℕ)) : ℝ) ≤ (1 / 100) ^ 5 * (6 / (120 * 5)) := by
    have e : ((Nat.succ 5 : ℕ) / ((Nat.factorial 5 : ℕ) * (5 : ℕ)) : ℝ) = 6 / (120 * 5) := by
      norm_num [Nat.factorial]
    rw [e]
    exact mul_le_mul_of_nonneg_right h5 (by norm_num)
  refine le_trans this ?_
  norm_num

noncomputable def rhoD : ℝ := 498048782969 / 500000000000
noncomputable def rhoA : ℝ := 499348746429 / 500000000000

theorem rhoD_enc : |exp (-(4 / 1023)) - rhoD| ≤ 1 / 10 ^ 11 := by
  have h := exp_taylor5 (x := -(4 / 1023)) (by rw [abs_neg, abs_of_nonneg (by norm_num)]; norm_num)
  have e : |(1 + -(4 / 1023 : ℝ) + (-(4 / 1023)) ^ 2 / 2 + (-(4 / 1023)) ^ 3 / 6 + (-(4 / 1023)) ^ 4 / 24) - rhoD| ≤ 8 / 10 ^ 12 := by
    unfold rhoD; rw [abs_le]; constructor <;> norm_num
  have := abs_sub_le (exp (-(4 / 1023))) (1 + -(4 / 1023 : ℝ) + (-(4 / 1023)) ^ 2 / 2 + (-(4 / 1023)) ^ 3 / 6 + (-(4 / 1023)) ^ 4 / 24) rhoD
  have : (1:ℝ) / 10 ^ 12 + 8 / 10 ^ 12 ≤ 1 / 10 ^ 11 := by norm_num
  linarith

theorem rhoA_enc : |exp (-(4 / 3069)) - rhoA| ≤ 1 / 10 ^ 11 := by
  have h := exp_taylor5 (x := -(4 / 3069)) (by rw [abs_neg, abs_of_nonneg (by norm_num)]; norm_num)
  have e : |(1 + -(4 / 3069 : ℝ) + (-(4 / 3069)) ^ 2 / 2 + (-(4 / 3069)) ^ 3 / 6 + (-(4 / 3069)) ^ 4 / 24) - rhoA| ≤ 8 / 10 ^ 12 := by
    unfold rhoA; rw [abs_le]; constructor <;> norm_num
  have := abs_sub_le (exp (-(4 / 3069))) (1 + -(4 / 3069 : ℝ) + (-(4 / 3069)) ^ 2 / 2 + (-(4 / 3069)) ^ 3 / 6 + (-(4 / 3069)) ^ 4 / 24) rhoA
  have : (1:ℝ) / 10 ^ 12 + 8 / 10 ^ 12 ≤ 1 / 10 ^ 11 := by norm_num
  linarith

/-- `exp(−4) = 1/e^4` from Mathlib's nine-digit bounds on `e` -/
theorem exp_neg4_enc : (18315638884 : ℝ) / 10 ^ 12 ≤ exp (-4) ∧ exp (-4) ≤ 18315638895 / 10 ^ 12 := by
  have h1 := exp_one_gt_d9
  have h2 := exp_one_lt_d9
  have e4 : exp (4:ℝ) = (exp 1) ^ 4 := by
    rw [← exp_nat_mul]; norm_num
  have e : exp (-4) = 1 / (exp 1) ^ 4 := by
    rw [exp_neg, e4, one_div]
  have p1 : (2.7182818283:ℝ) ^ 4 ≤ (exp 1) ^ 4 := pow_le_pow_left₀ (by norm_num) h1.le 4
  have p2 : (exp 1) ^ 4 ≤ (2.7182818286:ℝ) ^ 4 := pow_le_pow_left₀ (exp_pos 1).le h2.le 4
  have pos : 0 < (exp 1) ^ 4 := by positivity
  rw [e]
  constructor
  · rw [div_le_div_iff₀ (by norm_num) pos]
    calc (18315638884:ℝ) * (exp 1) ^ 4 ≤ 18315638884 * (2.7182818286:ℝ) ^ 4 := mul_le_mul_of_nonneg_left p2 (by norm_num)
      _ ≤ 1 * 10 ^ 12 := by norm_num
  · rw [div_le_div_iff₀ pos (by norm_num)]
    calc (1:ℝ) * 10 ^ 12 ≤ 18315638895 * (2.7182818283:ℝ) ^ 4 := by norm_num
      _ ≤ 18315638895 * (exp 1) ^ 4 := mul_le_mul_of_nonneg_left p1 (by norm_num)

/-- `exp(−4/3)` is the cube root of `exp(−4)` -/
theorem exp_neg43_enc : (2635971380 : ℝ) / 10 ^ 10 ≤ exp (-(4 / 3)) ∧ exp (-(4 / 3)) ≤ 2635971382 / 10 ^ 10 := by
  obtain ⟨l, u⟩ := exp_neg4_enc
  have e : exp (-(4 / 3)) ^ 3 = exp (-4) := by
    rw [← exp_nat_mul]; norm_num
  have pos : 0 ≤ exp (-(4 / 3)) := (exp_pos _).le
  constructor
  · by_contra h
    have h' : exp (-(4 / 3)) < 2635971380 / 10 ^ 10 := not_le.mp h
    have : exp (-(4 / 3)) ^ 3 < (2635971380 / 10 ^ 10 : ℝ) ^ 3 := pow_lt_pow_left₀ h' pos (by norm_num)
    rw [e] at this
    have : (2635971380 / 10 ^ 10 : ℝ) ^ 3 ≤ 18315638884 / 10 ^ 12 := by norm_num
    linarith
  · by_contra h
    have h' : 2635971382 / 10 ^ 10 < exp (-(4 / 3)) := not_le.mp h
    have : (2635971382 / 10 ^ 10 : ℝ) ^ 3 < exp (-(4 / 3)) ^ 3 := pow_lt_pow_left₀ h' (by norm_num) (by norm_num)
    rw [e] at this
    have : (18315638895 / 10 ^ 12 : ℝ) ≤ (2635971382 / 10 ^ 10 : ℝ) ^ 3 := by norm_num
    linarith

end Fid
