import SynthVerif.Props.MidiLemmas
/-!
# C04 — MIDI gate and note number track the keys that are held

Specification: `outstanding : List Nat`, the note-ons not yet cancelled.  A note-on (velocity > 0) on the listened
channel appends its note, a note-off or zero-velocity note-on removes every entry with that note number,
controller 123 (All-Notes-Off) empties the list; nothing else touches it.
`tracks`: for every history in which at most 32 note-ons are outstanding after every event,
  `held = outstanding`, `gate() = (outstanding ≠ [])`,
  `note_num()` = the note selected from `outstanding` by the priority in force at the latest note message
  (kept when the list empties), `velocity()` = velocity of the latest note-on / 127.
`select_last/high/low`: what "selected by the priority" means (most recent / highest / lowest).
-/
namespace C04
open F32

/-- the message an event delivers to the receiver, if any -/
def msgOf (m : Midi) : MidiEv → Option MidiMsg
  | .msg x => some x
  | .byte b => (parserStep m.parser b).2
  | _ => none

structure Spec where
  out : List Nat := []            -- outstanding note-ons, oldest first
  note : Nat := 0
  vel : F32 := zero
  prio : NotePriority := .last

/-- note selection: the same three rules as the property text, characterised below -/
def select (p : NotePriority) (l : List Nat) : Nat := Midi.chooseFrom p l

def Spec.onMsg (ch : Nat) (s : Spec) : MidiMsg → Spec
  | .noteOn c n v =>
    if c == ch then
      if v == 0 then
        let o := s.out.filter (· != n)
        { s with out := o, note := if o.isEmpty then s.note else select s.prio o }
      else
        let o := s.out ++ [n]
        { s with out := o, note := select s.prio o, vel := value7ToF32 v }
    else s
  | .noteOff c n _ =>
    if c == ch then
      let o := s.out.filter (· != n)
      { s with out := o, note := if o.isEmpty then s.note else select s.prio o }
    else s
  | .controlChange c cc _ => if c == ch && cc == 123 then { s with out := [] } else s
  | _ => s

def Spec.step (ch : Nat) (s : Spec) (msg : Option MidiMsg) : MidiEv → Spec
  | .setPriority p => { s with prio := p }
  | .msg _ | .byte _ => match msg with
    | some x => s.onMsg ch x
    | none => s
  | _ => s

/-- the specification state after a history (the receiver is consulted only for its byte parser) -/
def specAfter (ch : Nat) (m : Midi) (s : Spec) : List MidiEv → Spec
  | [] => s
  | e :: es => specAfter ch (m.stepEv e).1 (s.step ch (msgOf m e) e) es

/-- at most 32 note-ons are outstanding after every event of the history -/
def Bounded (ch : Nat) (m : Midi) (s : Spec) : List MidiEv → Prop
  | [] => True
  | e :: es => (s.step ch (msgOf m e) e).out.length ≤ 32 ∧ Bounded ch (m.stepEv e).1 (s.step ch (msgOf m e) e) es

structure Rel (m : Midi) (s : Spec) : Prop where
  held : m.held = s.out
  gate : m.gate = !s.out.isEmpty
  note : m.noteNum = s.note
  vel : m.velocity = s.vel
  prio : m.priority = s.prio
  len : s.out.length ≤ 32

theorem cap_32 : 32 ≤ Gen.heldLen := by decide
theorem all_notes_off_is_123 : Midi.ccArm 123 = 8 := by decide
theorem arm8_only_123 (cc : Nat) (h : Midi.ccArm cc = 8) : cc = 123 := by
  unfold Midi.ccArm at h
  repeat' split at h
  all_goals first | omega | (rename_i h8; simpa [show Gen.ccAllNotesOff = 123 from rfl] using h8)

private theorem gate_after_filter (l : List Nat) (n : Nat) :
    (if (l.filter (· != n)).isEmpty then false else !l.isEmpty) = !(l.filter (· != n)).isEmpty := by
  cases he : (l.filter (· != n)).isEmpty
  · simp only [Bool.false_eq_true, ↓reduceIte, Bool.not_false]
    cases l with
    | nil => simp at he
    | cons a as => rfl
  · simp

private theorem off_rel {m : Midi} {s : Spec} (h : Rel m s) (n : Nat) :
    Rel (m.noteOff n)
      { s with out := s.out.filter (· != n),
               note := if (s.out.filter (· != n)).isEmpty then s.note else select s.prio (s.out.filter (· != n)) } := by
  obtain ⟨hh, hg, hn, hv, hp, hl⟩ := h
  have hle : (s.out.filter (· != n)).length ≤ 32 := Nat.le_trans (List.length_filter_le _ _) hl
  constructor
  · simp [Midi.noteOff, Midi.heldAfterOff, hh]
  · simp only [Midi.noteOff, Midi.heldAfterOff, hh, hg]; exact gate_after_filter s.out n
  · simp only [Midi.noteOff, Midi.heldAfterOff, hh, hn, hp, select]
  · simp [Midi.noteOff, hv]
  · simp [Midi.noteOff, hp]
  · exact hle

private theorem onMsg_rel {m : Midi} {s : Spec} (h : Rel m s) (x : MidiMsg)
    (hb : (s.onMsg m.channel x).out.length ≤ 32) : Rel (m.handle x) (s.onMsg m.channel x) := by
  obtain ⟨hh, hg, hn, hv, hp, hl⟩ := h
  have hcap := cap_32
  cases x <;> simp only [Midi.handle, Spec.onMsg] at hb ⊢
  case noteOn c n v =>
    by_cases hc : c = m.channel
    · subst hc
      by_cases hv0 : v = 0
      · subst hv0
        simp only [beq_self_eq_true, ↓reduceIte]
        exact off_rel ⟨hh, hg, hn, hv, hp, hl⟩ n
      · have hv' : (v == 0) = false := by simp [hv0]
        simp only [beq_self_eq_true, ↓reduceIte, hv', Bool.false_eq_true, Midi.noteOn] at hb ⊢
        have hb' : s.out.length + 1 ≤ 32 := by simpa using hb
        have hlt : m.held.length < Gen.heldLen := by rw [hh]; omega
        have ho : m.heldAfterOn n = s.out ++ [n] := by unfold Midi.heldAfterOn; rw [if_pos hlt, hh]
        constructor
        · simp [ho]
        · simp [ho]
        · simp [ho, select, hp]
        · simp
        · simp [hp]
        · simpa using hb
    · have : (c == m.channel) = false := by simp [hc]
      simp only [this, Bool.false_eq_true, ↓reduceIte]
      exact ⟨hh, hg, hn, hv, hp, hl⟩
  case noteOff c n v =>
    by_cases hc : c = m.channel
    · subst hc
      simp only [beq_self_eq_true, ↓reduceIte]
      exact off_rel ⟨hh, hg, hn, hv, hp, hl⟩ n
    · have : (c == m.channel) = false := by simp [hc]
      simp only [this, Bool.false_eq_true, ↓reduceIte]
      exact ⟨hh, hg, hn, hv, hp, hl⟩
  case controlChange c cc v =>
    by_cases hc : c = m.channel
    · subst hc
      by_cases h123 : cc = 123
      · subst h123
        simp only [beq_self_eq_true, ↓reduceIte, Bool.and_self, Midi.controlChange, all_notes_off_is_123]
        constructor <;> simp_all
      · have hne : (cc == 123) = false := by simp [h123]
        have harm : (Midi.ccArm cc == 8) = false := by
          cases h8 : (Midi.ccArm cc == 8)
          · rfl
          · exact absurd (arm8_only_123 cc (by simpa using h8)) h123
        simp only [beq_self_eq_true, hne, Bool.and_false, Bool.false_eq_true, ↓reduceIte, Midi.controlChange, harm]
        constructor <;> simp_all
    · have : (c == m.channel) = false := by simp [hc]
      simp only [this, Bool.false_eq_true, ↓reduceIte, Bool.false_and]
      exact ⟨hh, hg, hn, hv, hp, hl⟩
  case pitchBend c a b =>
    split <;> (constructor <;> simp_all)
  all_goals exact ⟨hh, hg, hn, hv, hp, hl⟩

private theorem step_rel {m : Midi} {s : Spec} (h : Rel m s) (_hch : True) (e : MidiEv)
    (hb : (s.step m.channel (msgOf m e) e).out.length ≤ 32) :
    Rel (m.stepEv e).1 (s.step m.channel (msgOf m e) e) := by
  cases e with
  | msg x => exact onMsg_rel h x hb
  | byte b =>
    simp only [Midi.stepEv, Midi.parse, Spec.step, msgOf] at hb ⊢
    cases hp : (parserStep m.parser b).2 with
    | none =>
      obtain ⟨hh, hg, hn, hv, hp', hl⟩ := h
      constructor <;> simp_all
    | some x =>
      have h' : Rel { m with parser := (parserStep m.parser b).1 } s := by
        obtain ⟨hh, hg, hn, hv, hp', hl⟩ := h
        constructor <;> simp_all
      simp only [hp] at hb
      exact onMsg_rel h' x hb
  | pollRising => obtain ⟨hh, hg, hn, hv, hp', hl⟩ := h; constructor <;> simp_all [Midi.stepEv, Midi.readRising, Spec.step]
  | pollFalling => obtain ⟨hh, hg, hn, hv, hp', hl⟩ := h; constructor <;> simp_all [Midi.stepEv, Midi.readFalling, Spec.step]
  | setRetrigger b => obtain ⟨hh, hg, hn, hv, hp', hl⟩ := h; constructor <;> simp_all [Midi.stepEv, Spec.step]
  | setPriority p => obtain ⟨hh, hg, hn, hv, hp', hl⟩ := h; constructor <;> simp_all [Midi.stepEv, Spec.step]

private theorem channel_stepEv (m : Midi) (e : MidiEv) : (m.stepEv e).1.channel = m.channel := by
  cases e with
  | msg x =>
    cases x <;> simp [Midi.stepEv, Midi.handle] <;> (repeat' split) <;> simp [Midi.noteOn, Midi.noteOff, Midi.controlChange]
  | byte b =>
    simp only [Midi.stepEv, Midi.parse]
    cases (parserStep m.parser b).2 with
    | none => rfl
    | some x => cases x <;> simp [Midi.handle] <;> (repeat' split) <;> simp [Midi.noteOn, Midi.noteOff, Midi.controlChange]
  | _ => simp [Midi.stepEv, Midi.readRising, Midi.readFalling]

private theorem run_rel {m : Midi} {s : Spec} (h : Rel m s) (es : List MidiEv)
    (hb : Bounded m.channel m s es) : Rel (m.after es) (specAfter m.channel m s es) := by
  induction es generalizing m s with
  | nil => simpa [Midi.after, Midi.runEv, specAfter] using h
  | cons e es ih =>
    obtain ⟨hb1, hb2⟩ := hb
    have h1 := step_rel h trivial e hb1
    have hc := channel_stepEv m e
    have := ih h1 (by rw [hc]; exact hb2)
    simp only [Midi.after, Midi.runEv, specAfter] at this ⊢
    rw [hc] at this
    exact this

theorem rel_new (ch : Nat) : Rel (Midi.new ch) {} := by
  constructor <;> simp [Midi.new]

/-- **C04, main statement.** -/
theorem tracks (ch : Nat) (es : List MidiEv)
    (hb : Bounded (min ch 15) (Midi.new ch) {} es) :
    let m := (Midi.new ch).after es
    let s := specAfter (min ch 15) (Midi.new ch) {} es
    m.held = s.out ∧ m.gate = !s.out.isEmpty ∧ m.noteNum = s.note ∧ m.velocity = s.vel := by
  have h := run_rel (rel_new ch) es (by simpa [Midi.new] using hb)
  simp only [Midi.new] at h ⊢
  exact ⟨h.held, h.gate, h.note, h.vel⟩

/-! ### what "selected by the priority" means -/

theorem select_last (l : List Nat) (h : l ≠ []) : select .last l = l.getLast h := by
  simp [select, Midi.chooseFrom, List.getLast?_eq_some_getLast h]

private theorem foldl_max_ge (l : List Nat) (a : Nat) : a ≤ l.foldl Nat.max a ∧ ∀ x ∈ l, x ≤ l.foldl Nat.max a := by
  induction l generalizing a with
  | nil => simp
  | cons y ys ih =>
    obtain ⟨h1, h2⟩ := ih (Nat.max a y)
    simp only [List.foldl_cons, List.mem_cons, forall_eq_or_imp]
    exact ⟨Nat.le_trans (Nat.le_max_left a y) h1, Nat.le_trans (Nat.le_max_right a y) h1, h2⟩

private theorem foldl_max_mem (l : List Nat) (a : Nat) : l.foldl Nat.max a = a ∨ l.foldl Nat.max a ∈ l := by
  induction l generalizing a with
  | nil => simp
  | cons y ys ih =>
    simp only [List.foldl_cons, List.mem_cons]
    rcases ih (Nat.max a y) with h | h
    · rw [h]; rcases Nat.le_total a y with hay | hay
      · right; left; exact Nat.max_eq_right hay
      · left; exact Nat.max_eq_left hay
    · right; right; exact h

theorem select_high (l : List Nat) (h : l ≠ []) : select .high l ∈ l ∧ ∀ x ∈ l, x ≤ select .high l := by
  simp only [select, Midi.chooseFrom]
  refine ⟨?_, (foldl_max_ge l 0).2⟩
  rcases foldl_max_mem l 0 with h0 | hm
  · -- the maximum is 0: every element is 0, and the list is non-empty
    cases l with
    | nil => exact absurd rfl h
    | cons y ys =>
      have := (foldl_max_ge (y :: ys) 0).2 y (by simp)
      rw [h0] at this ⊢
      have : y = 0 := by omega
      simp [this]
  · exact hm

private theorem foldl_min_le (l : List Nat) (a : Nat) : l.foldl Nat.min a ≤ a ∧ ∀ x ∈ l, l.foldl Nat.min a ≤ x := by
  induction l generalizing a with
  | nil => simp
  | cons y ys ih =>
    obtain ⟨h1, h2⟩ := ih (Nat.min a y)
    simp only [List.foldl_cons, List.mem_cons, forall_eq_or_imp]
    exact ⟨Nat.le_trans h1 (Nat.min_le_left a y), Nat.le_trans h1 (Nat.min_le_right a y), h2⟩

private theorem foldl_min_mem (l : List Nat) (a : Nat) : l.foldl Nat.min a = a ∨ l.foldl Nat.min a ∈ l := by
  induction l generalizing a with
  | nil => simp
  | cons y ys ih =>
    simp only [List.foldl_cons, List.mem_cons]
    rcases ih (Nat.min a y) with h | h
    · rw [h]; rcases Nat.le_total a y with hay | hay
      · left; exact Nat.min_eq_left hay
      · right; left; exact Nat.min_eq_right hay
    · right; right; exact h

theorem select_low (l : List Nat) (h : l ≠ []) : select .low l ∈ l ∧ ∀ x ∈ l, select .low l ≤ x := by
  cases l with
  | nil => exact absurd rfl h
  | cons y ys =>
    simp only [select, Midi.chooseFrom, List.mem_cons, forall_eq_or_imp]
    obtain ⟨h1, h2⟩ := foldl_min_le ys y
    refine ⟨?_, h1, h2⟩
    rcases foldl_min_mem ys y with h | h
    · left; exact h
    · right; exact h

/-- non-vacuity: a history that satisfies `Bounded`, with three keys, a priority switch and a release -/
example : Bounded 2 (Midi.new 2) {}
    [.byte 0x92, .byte 60, .byte 100, .byte 64, .byte 90, .setPriority .high, .byte 62, .byte 80, .byte 64, .byte 0] := by
  simp only [Bounded]; decide
example : ((Midi.new 2).after
    [.byte 0x92, .byte 60, .byte 100, .byte 64, .byte 90, .setPriority .high, .byte 62, .byte 80, .byte 64, .byte 0]).noteNum = 62 := by
  decide

end C04
