import SynthVerif.Props.MidiLemmas
/-!
# C05 — MIDI gate edges are reported exactly once per gate transition

Specification (`Latch`): two edge latches driven *only* by how `gate()` moved and by whether the event was a
note-on (velocity > 0) on the listened channel:
* the falling latch is set when the gate goes high → low, cleared by a note-on and by a `falling_gate()` read;
* the rising latch is set by a note-on that raises the gate from low or by any note-on in retrigger mode,
  cleared when the gate drops and by a `rising_gate()` read.
`polls_are_latches`: for every history of bytes, decoded messages, polls and mode changes, every poll of the
receiver returns the latch of this specification (driven by the receiver's own `gate()` signal).
`rising_implies_gate`, `falling_implies_not_gate`: the two implications of the property, in every reachable state.
-/
namespace C05

structure Latch where
  gate : Bool := false
  rise : Bool := false
  fall : Bool := false
  retrig : Bool := false
deriving Repr, DecidableEq

/-- the gate moved from `l.gate` to `g'` during an event that was (`noteOn`) or was not a note-on -/
def Latch.onEvent (l : Latch) (noteOn : Bool) (g' : Bool) : Latch :=
  { l with
    gate := g'
    fall := if l.gate && !g' then true else if noteOn then false else l.fall
    rise := if l.gate && !g' then false else if noteOn && (!l.gate || l.retrig) then true else l.rise }

/-- is the event a note-on (velocity > 0) for the listened channel, seen from receiver state `m`? -/
def isNoteOn (m : Midi) : MidiEv → Bool
  | .msg x => x.isNoteOnFor m.channel
  | .byte b => match (parserStep m.parser b).2 with
    | some x => x.isNoteOnFor m.channel
    | none => false
  | _ => false

/-- specification step: sees the event kind and the gate after the event, nothing else of the receiver -/
def Latch.step (l : Latch) (noteOn : Bool) (gateAfter : Bool) : MidiEv → Latch × Option Bool
  | .pollRising => ({ l with rise := false }, some l.rise)
  | .pollFalling => ({ l with fall := false }, some l.fall)
  | .setRetrigger b => ({ l with retrig := b }, none)
  | .setPriority _ => (l, none)
  | .msg _ | .byte _ => (l.onEvent noteOn gateAfter, none)

/-- the polls the specification answers along a history, driven by the receiver's gate signal -/
def specPolls (m : Midi) (l : Latch) : List MidiEv → List Bool
  | [] => []
  | e :: es =>
    let m' := (m.stepEv e).1
    let (l', p) := l.step (isNoteOn m e) m'.gate e
    match p with
    | some b => b :: specPolls m' l' es
    | none => specPolls m' l' es

/-- coupling invariant -/
structure Rel (m : Midi) (l : Latch) : Prop where
  gate : l.gate = m.gate
  rise : l.rise = m.risingGate
  fall : l.fall = m.fallingGate
  retrig : l.retrig = m.retrigger
  held : m.gate = !m.held.isEmpty
  riseGate : m.risingGate = true → m.gate = true
  fallGate : m.fallingGate = true → m.gate = false

theorem rel_new (ch : Nat) : Rel (Midi.new ch) {} := by
  constructor <;> simp [Midi.new]

private theorem off_nil {m : Midi} (h : m.held = []) (n : Nat) : m.heldAfterOff n = [] := by
  simp [Midi.heldAfterOff, h]

private theorem handle_rel {m : Midi} {l : Latch} (h : Rel m l) (x : MidiMsg) :
    Rel (m.handle x) (l.onEvent (x.isNoteOnFor m.channel) (m.handle x).gate) := by
  obtain ⟨hg, hr, hf, ht, hh, hrg, hfg⟩ := h
  cases x <;> simp only [Midi.handle, MidiMsg.isNoteOnFor]
  case noteOn c n v =>
    by_cases hc : c = m.channel
    · subst hc
      by_cases hv : v = 0
      · subst hv
        simp only [beq_self_eq_true, ↓reduceIte, Midi.noteOff, Latch.onEvent]
        cases he : (m.heldAfterOff n).isEmpty <;> cases hgm : m.gate <;>
          constructor <;> simp_all [off_nil]
      · have hv' : (v == 0) = false := by simp [hv]
        have h1 := Midi.heldAfterOn_length_one m n
        have h2 := Midi.heldAfterOn_isEmpty m n
        simp only [beq_self_eq_true, ↓reduceIte, hv', Midi.noteOn, Latch.onEvent, Bool.false_eq_true]
        cases hgm : m.gate <;> cases hre : m.retrigger <;> constructor <;> simp_all
    · have : (c == m.channel) = false := by simp [hc]
      simp only [this, Bool.false_eq_true, ↓reduceIte, Bool.false_and, Latch.onEvent]
      cases hgm : m.gate <;> constructor <;> simp_all
  case noteOff c n v =>
    by_cases hc : c = m.channel
    · subst hc
      simp only [beq_self_eq_true, ↓reduceIte, Midi.noteOff, Latch.onEvent]
      cases he : (m.heldAfterOff n).isEmpty <;> cases hgm : m.gate <;>
        constructor <;> simp_all [off_nil]
    · have : (c == m.channel) = false := by simp [hc]
      simp only [this, Bool.false_eq_true, ↓reduceIte, Latch.onEvent]
      cases hgm : m.gate <;> constructor <;> simp_all
  case controlChange c cc v =>
    by_cases hc : c = m.channel
    · subst hc
      simp only [beq_self_eq_true, ↓reduceIte, Midi.controlChange, Latch.onEvent]
      cases ha : (Midi.ccArm cc == 8) <;> cases hgm : m.gate <;> constructor <;> simp_all
    · have : (c == m.channel) = false := by simp [hc]
      simp only [this, Bool.false_eq_true, ↓reduceIte, Latch.onEvent]
      cases hgm : m.gate <;> constructor <;> simp_all
  case pitchBend c a b =>
    simp only [Latch.onEvent]
    split <;> (cases hgm : m.gate <;> constructor <;> simp_all)
  all_goals (simp only [Latch.onEvent]; cases hgm : m.gate <;> constructor <;> simp_all)

private theorem step_rel {m : Midi} {l : Latch} (h : Rel m l) (e : MidiEv) :
    Rel (m.stepEv e).1 (l.step (isNoteOn m e) (m.stepEv e).1.gate e).1 ∧
    (m.stepEv e).2 = (l.step (isNoteOn m e) (m.stepEv e).1.gate e).2 := by
  cases e with
  | msg x => exact ⟨handle_rel h x, rfl⟩
  | byte b =>
    simp only [Midi.stepEv, Midi.parse, Latch.step, isNoteOn]
    cases hp : (parserStep m.parser b).2 with
    | none =>
      obtain ⟨hg, hr, hf, ht, hh, hrg, hfg⟩ := h
      refine ⟨?_, trivial⟩
      simp only [Latch.onEvent]
      cases hgm : m.gate <;> constructor <;> simp_all
    | some x =>
      refine ⟨?_, trivial⟩
      have h' : Rel { m with parser := (parserStep m.parser b).1 } l := by
        obtain ⟨hg, hr, hf, ht, hh, hrg, hfg⟩ := h
        constructor <;> simp_all
      exact handle_rel h' x
  | pollRising =>
    obtain ⟨hg, hr, hf, ht, hh, hrg, hfg⟩ := h
    refine ⟨?_, ?_⟩
    · constructor <;> simp_all [Midi.stepEv, Midi.readRising, Latch.step]
    · simp [Midi.stepEv, Midi.readRising, Latch.step, hr]
  | pollFalling =>
    obtain ⟨hg, hr, hf, ht, hh, hrg, hfg⟩ := h
    refine ⟨?_, ?_⟩
    · constructor <;> simp_all [Midi.stepEv, Midi.readFalling, Latch.step]
    · simp [Midi.stepEv, Midi.readFalling, Latch.step, hf]
  | setRetrigger b =>
    obtain ⟨hg, hr, hf, ht, hh, hrg, hfg⟩ := h
    exact ⟨by constructor <;> simp_all [Midi.stepEv, Latch.step], rfl⟩
  | setPriority p =>
    obtain ⟨hg, hr, hf, ht, hh, hrg, hfg⟩ := h
    exact ⟨by constructor <;> simp_all [Midi.stepEv, Latch.step], rfl⟩

private theorem polls_rel {m : Midi} {l : Latch} (h : Rel m l) (es : List MidiEv) :
    (m.runEv es).2 = specPolls m l es ∧ ∃ l', Rel (m.runEv es).1 l' := by
  induction es generalizing m l with
  | nil => exact ⟨rfl, l, h⟩
  | cons e es ih =>
    obtain ⟨hrel, hout⟩ := step_rel h e
    obtain ⟨ih1, ih2⟩ := ih hrel
    simp only [Midi.runEv, specPolls]
    refine ⟨?_, ih2⟩
    rw [hout] at *
    cases hp : (l.step (isNoteOn m e) (m.stepEv e).1.gate e).2 <;> simp_all

/-- **C05, main statement.** Every poll of the receiver, in every history, returns the edge latch of the
specification. -/
theorem polls_are_latches (ch : Nat) (es : List MidiEv) :
    ((Midi.new ch).runEv es).2 = specPolls (Midi.new ch) {} es :=
  (polls_rel (rel_new ch) es).1

/-- A pending rising edge implies the gate is high, in every reachable state. -/
theorem rising_implies_gate (ch : Nat) (es : List MidiEv) :
    ((Midi.new ch).after es).risingGate = true → ((Midi.new ch).after es).gate = true := by
  obtain ⟨_, l', h⟩ := polls_rel (rel_new ch) es
  exact h.riseGate

/-- A pending falling edge implies the gate is low, in every reachable state. -/
theorem falling_implies_not_gate (ch : Nat) (es : List MidiEv) :
    ((Midi.new ch).after es).fallingGate = true → ((Midi.new ch).after es).gate = false := by
  obtain ⟨_, l', h⟩ := polls_rel (rel_new ch) es
  exact h.fallGate

/-- The gate is high exactly when the held-note list is non-empty, in every reachable state. -/
theorem gate_iff_held (ch : Nat) (es : List MidiEv) :
    ((Midi.new ch).after es).gate = !((Midi.new ch).after es).held.isEmpty := by
  obtain ⟨_, l', h⟩ := polls_rel (rel_new ch) es
  exact h.held

/-! ### the specification does what the property text says (sanity lemmas about `Latch` itself) -/

/-- exactly once: a read clears the latch, so a second read without a new transition returns false -/
theorem spec_read_twice (l : Latch) (n g) :
    ((l.step n g .pollFalling).1.step n g .pollFalling).2 = some false ∧
    ((l.step n g .pollRising).1.step n g .pollRising).2 = some false := by
  simp [Latch.step]

/-- a gate drop latches a falling edge whatever caused it; a following note-on cancels it -/
theorem spec_drop_then_noteon (l : Latch) (n : Bool) (h : l.gate = true) :
    (l.onEvent n false).fall = true ∧ ((l.onEvent n false).onEvent true true).fall = false := by
  simp [Latch.onEvent, h]

/-- non-vacuity: a concrete history (note-on, All-Notes-Off, two polls) on channel 0 -/
example : ((Midi.new 0).runEv
    [.byte 0x90, .byte 60, .byte 100, .byte 0xB0, .byte 123, .byte 0, .pollFalling, .pollFalling, .pollRising]).2
    = [true, false, false] := by decide

end C05
