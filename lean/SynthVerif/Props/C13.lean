import SynthVerif.Props.GlideLemmas
import SynthVerif.Props.C20
/-!
# C13 — Glide never overshoots or rings and always converges to a steady input

* `coeff_sign`: for every sample rate in [100 Hz, 48 kHz] (any representable value) and **every** `set_time`
  argument (any f32: 0, NaN, ∞ included) the filter is a one-pole with `0 < b0 ≤ 1` and `−1 ≤ a1 ≤ 0`
  (`GInv` is an invariant of every `set_time`/`process` history).
* `stepQ_mono`: with `a1 ≤ 0` one filter step is a monotone (non-decreasing) function of the previous output —
  for the *rounded* binary32 recurrence, no error analysis involved.
* `no_ringing`: hence with the input held and the coefficients unchanged the output sequence is monotone from the
  first step on: it never reverses direction, so it cannot oscillate around the target.
* `bounded_partial`: for inputs bounded by `M` the output stays within `[-2M, 2M]` under any `set_time` schedule
  (coarse form of the range clause: enough to exclude overflow in every step).
* Part 2, `C13Range.lean`: `range_tight` (the property's tight bound "range of the inputs ± f32 resolution of the
  filter", for every input sequence and `set_time` schedule) and `held_input_converges` (geometric settling on a
  held input down to that resolution).
-/
namespace C13
open F32 Glide

/-! ### one filter step is monotone in the previous output -/

theorem stepQ_mono {b0 a1 x y y' : ℚ} (ha : a1 ≤ 0) (h : y ≤ y') : stepQ b0 a1 x y ≤ stepQ b0 a1 x y' := by
  unfold stepQ
  apply rnd_mono
  have := rnd_mono (mul_le_mul_of_nonpos_left h ha)
  linarith

/-- iterating the step with a fixed input -/
def iter (b0 a1 x : ℚ) (y0 : ℚ) : ℕ → ℚ
  | 0 => y0
  | n + 1 => stepQ b0 a1 x (iter b0 a1 x y0 n)

/-- **no ringing**: the rounded recurrence with the input held never reverses direction -/
theorem no_ringing (b0 a1 x y0 : ℚ) (ha : a1 ≤ 0) :
    (iter b0 a1 x y0 0 ≤ iter b0 a1 x y0 1 → ∀ n, iter b0 a1 x y0 n ≤ iter b0 a1 x y0 (n + 1)) ∧
    (iter b0 a1 x y0 1 ≤ iter b0 a1 x y0 0 → ∀ n, iter b0 a1 x y0 (n + 1) ≤ iter b0 a1 x y0 n) := by
  constructor
  · intro h n
    induction n with
    | zero => exact h
    | succ n ih => exact stepQ_mono ha ih
  · intro h n
    induction n with
    | zero => exact h
    | succ n ih => exact stepQ_mono ha ih

/-! ### the coefficients `set_time` produces -/

theorem two_pi : mul two pi32 = .fin (mul two pi32).val false := by decide +kernel
theorem two_pi_bounds : 6 ≤ (mul two pi32).val ∧ (mul two pi32).val ≤ 7 := by decide +kernel
theorem minFc_val : (ofRat (1 / 10)).isFin = true ∧ (1:ℚ) / 16 ≤ (ofRat (1 / 10)).val ∧ (ofRat (1 / 10)).val ≤ 1 / 8 ∧
    ofRat (1 / 10) = .fin (ofRat (1 / 10)).val false := by decide +kernel

/-- the smoothing coefficient `mkCoeffs` computes, as a function of the rational values of `fs` and `f0`:
`ω = fl(fl(2π·f0)/fs)`, `α = fl(ω / fl(ω + 1))` -/
def omegaQ (σ φ : ℚ) : ℚ := rnd (rnd ((mul two pi32).val * φ) / σ)
def alphaQ (σ φ : ℚ) : ℚ := rnd (omegaQ σ φ / rnd (omegaQ σ φ + 1))

/-- `from_params(SinglePoleLowPassApprox)`: for `0 < f0`, `2·f0 ≤ fs ≤ 2^16`, `f0 ≥ 1/16` the result is a one-pole
with `2^-21 ≤ b0 ≤ 1`, `−1 ≤ a1 ≤ 0` and `|a1 − (b0 − 1)| ≤ 2^-25`; `b0 = alphaQ fs f0`, `a1 = fl(b0 − 1)` -/
theorem mkCoeffs_full (σ φ : ℚ) (ns nf : Bool) (hσ : σ ≤ 2 ^ 16) (hφ : 1 / 16 ≤ φ) (hn : 2 * φ ≤ σ)
    (hrσ : Rep σ) (hrφ : Rep φ) :
    ∃ c, mkCoeffs (.fin σ ns) (.fin φ nf) = some c ∧ c.a2 = zero ∧ c.b1 = zero ∧ c.b2 = zero ∧
      c.a1.isFin = true ∧ c.b0.isFin = true ∧ 2 ^ (-21:ℤ) ≤ c.b0.val ∧ c.b0.val ≤ 1 ∧
      -1 ≤ c.a1.val ∧ c.a1.val ≤ 0 ∧ -c.a1.val ≤ 1 - c.b0.val + 2 ^ (-25:ℤ) ∧
      1 - c.b0.val - 2 ^ (-25:ℤ) ≤ -c.a1.val ∧ c.b0.val = alphaQ σ φ ∧ c.a1.val = rnd (c.b0.val - 1) := by
  have hφ0 : 0 < φ := lt_of_lt_of_le (by norm_num) hφ
  have hσ0 : 0 < σ := by linarith
  -- the guards
  have g1 : lt zero (F32.fin σ ns) = true := by simp only [lt, zero]; simpa using hσ0
  have g2 : lt zero (F32.fin φ nf) = true := by simp only [lt, zero]; simpa using hφ0
  have h2φ : Rep (2 * φ) := by have := rep_mul_pow2 hrφ 1; norm_num at this; rwa [mul_comm] at this
  have tw : two = .fin 2 false := rfl
  have m2 : mul two (F32.fin φ nf) = round (2 * φ) ((F32.fin (2:ℚ) false).sign != (F32.fin φ nf).sign) := by
    rw [tw, mul_fin]
  obtain ⟨q1, q2⟩ := round_fin (x := 2 * φ) ((F32.fin (2:ℚ) false).sign != (F32.fin φ nf).sign)
    (no_overflow (by rw [abs_of_nonneg (by positivity)]; exact le_trans (le_trans hn hσ) (by norm_num)))
  rw [rnd_rep h2φ] at q2
  have g3 : lt (F32.fin σ ns) (mul two (F32.fin φ nf)) = false := by
    rw [m2, lt_val (isFin_fin _ _) q1, q2, val_fin]; simpa using hn
  -- ω
  obtain ⟨tp1, tp2⟩ := two_pi_bounds
  set K := (mul two pi32).val with hK
  have hKf : (mul two pi32).isFin = true := by rw [two_pi]; rfl
  have hKφ : |K * φ| ≤ 2 ^ (127:ℤ) := by
    rw [abs_of_nonneg (by positivity)]
    calc K * φ ≤ 7 * 2 ^ 16 := by nlinarith
      _ ≤ 2 ^ (127:ℤ) := by norm_num
  obtain ⟨w1, w2⟩ := val_mul (x := mul two pi32) (y := .fin φ nf) hKf rfl (by simpa using hKφ)
  rw [val_fin] at w2
  -- bounds on rnd (K φ)
  have rlo : 3 / 8 ≤ rnd (K * φ) := by
    apply le_rnd_of_le _ (by have := rep_div_pow2 (m := 3) (by norm_num) 3 (by norm_num); norm_num at this; exact this)
    nlinarith
  have rhi : rnd (K * φ) ≤ 4 * σ := by
    have h4 : Rep (4 * σ) := by have := rep_mul_pow2 hrσ 2; norm_num at this; rwa [mul_comm] at this
    apply rnd_le_of_le _ h4; nlinarith
  have hdivb : |(mul (mul two pi32) (F32.fin φ nf)).val / (F32.fin σ ns).val| ≤ 2 ^ (127:ℤ) := by
    rw [w2, val_fin, abs_of_nonneg (by apply div_nonneg <;> linarith)]
    calc rnd (K * φ) / σ ≤ 4 := by rw [div_le_iff₀ hσ0]; exact rhi
      _ ≤ 2 ^ (127:ℤ) := by norm_num
  obtain ⟨o1, o2⟩ := val_div w1 (isFin_fin σ ns) (by simpa using ne_of_gt hσ0) hdivb
  rw [w2, val_fin] at o2
  set ω := (div (mul (mul two pi32) (F32.fin φ nf)) (F32.fin σ ns)).val with hω
  have ωlo : 2 ^ (-18:ℤ) ≤ ω := by
    rw [o2]; apply le_rnd_of_le _ (rep_pow2 (by norm_num))
    rw [le_div_iff₀ hσ0]
    calc (2:ℚ) ^ (-18:ℤ) * σ ≤ 2 ^ (-18:ℤ) * 2 ^ 16 := by nlinarith [show (0:ℚ) < 2 ^ (-18:ℤ) by positivity]
      _ ≤ 3 / 8 := by norm_num
      _ ≤ rnd (K * φ) := rlo
  have ωhi : ω ≤ 4 := by
    rw [o2]; apply rnd_le_of_le _ (by simpa using rep_int (n := 4) (by norm_num))
    rw [div_le_iff₀ hσ0]; exact rhi
  have ωrep : rnd ω = ω := by rw [o2]; exact rnd_idem _
  have ω0 : 0 < ω := lt_of_lt_of_le (by positivity) ωlo
  -- ω + 1
  obtain ⟨p1, p2⟩ := val_add o1 (by rfl : one.isFin = true)
    (by show |ω + 1| ≤ _; rw [abs_of_nonneg (by linarith)]; exact le_trans (by linarith) (by norm_num : (5:ℚ) ≤ 2 ^ (127:ℤ)))
  have p2' : (add (div (mul (mul two pi32) (F32.fin φ nf)) (F32.fin σ ns)) one).val = rnd (ω + 1) := p2
  have dlo : ω ≤ rnd (ω + 1) := by
    have := rnd_mono (show ω ≤ ω + 1 by linarith); rwa [ωrep] at this
  have dlo1 : 1 ≤ rnd (ω + 1) := le_rnd_of_le (by linarith) rep_one
  have dhi : rnd (ω + 1) ≤ 8 := rnd_le_of_le (by linarith) (by simpa using rep_int (n := 8) (by norm_num))
  -- α
  have hqb : |ω / rnd (ω + 1)| ≤ 2 ^ (127:ℤ) := by
    rw [abs_of_nonneg (by apply div_nonneg <;> linarith)]
    calc ω / rnd (ω + 1) ≤ 1 := by rw [div_le_one (by linarith)]; exact dlo
      _ ≤ 2 ^ (127:ℤ) := by norm_num
  obtain ⟨a1f, a1v⟩ := val_div o1 p1 (by rw [p2']; linarith) (by rw [p2']; exact hqb)
  rw [p2'] at a1v
  set α := (div (div (mul (mul two pi32) (F32.fin φ nf)) (F32.fin σ ns)) (add (div (mul (mul two pi32) (F32.fin φ nf)) (F32.fin σ ns)) one)).val with hα
  have αhi : α ≤ 1 := by
    rw [a1v]; apply rnd_le_of_le _ rep_one
    rw [div_le_one (by linarith)]; exact dlo
  have αlo : 2 ^ (-21:ℤ) ≤ α := by
    rw [a1v]; apply le_rnd_of_le _ (rep_pow2 (by norm_num))
    rw [le_div_iff₀ (by linarith)]
    calc (2:ℚ) ^ (-21:ℤ) * rnd (ω + 1) ≤ 2 ^ (-21:ℤ) * 8 := by nlinarith [show (0:ℚ) < 2 ^ (-21:ℤ) by positivity]
      _ = 2 ^ (-18:ℤ) := by norm_num
      _ ≤ ω := ωlo
  have α0 : 0 < α := lt_of_lt_of_le (by positivity) αlo
  -- a1 = α − 1
  obtain ⟨s1, s2⟩ := val_sub a1f (by rfl : one.isFin = true)
    (by show |α - 1| ≤ _; rw [abs_le]; constructor <;> [linarith [show (0:ℚ) ≤ 2 ^ (127:ℤ) by positivity]; linarith [show (1:ℚ) ≤ 2 ^ (127:ℤ) by norm_num]])
  have s2' : (sub (div (div (mul (mul two pi32) (F32.fin φ nf)) (F32.fin σ ns)) (add (div (mul (mul two pi32) (F32.fin φ nf)) (F32.fin σ ns)) one)) one).val = rnd (α - 1) := s2
  have a1lo : -1 ≤ rnd (α - 1) := le_rnd_of_le (by linarith) (rep_neg rep_one)
  have a1hi : rnd (α - 1) ≤ 0 := rnd_le_of_le (by linarith) rep_zero
  have a1err : |rnd (α - 1) - (α - 1)| ≤ 2 ^ (-25:ℤ) := by
    have := rnd_err (x := α - 1) (k := 0) (by norm_num) (by rw [abs_lt]; constructor <;> linarith)
    simpa using this
  have hmk : mkCoeffs (.fin σ ns) (.fin φ nf) = some
      { a1 := sub (div (div (mul (mul two pi32) (F32.fin φ nf)) (F32.fin σ ns)) (add (div (mul (mul two pi32) (F32.fin φ nf)) (F32.fin σ ns)) one)) one,
        a2 := zero,
        b0 := div (div (mul (mul two pi32) (F32.fin φ nf)) (F32.fin σ ns)) (add (div (mul (mul two pi32) (F32.fin φ nf)) (F32.fin σ ns)) one),
        b1 := zero, b2 := zero } := by
    simp only [mkCoeffs, g1, g2, g3, Bool.not_true, Bool.or_self, Bool.false_eq_true, ↓reduceIte]
  refine ⟨_, hmk, rfl, rfl, rfl, s1, a1f, αlo, αhi, ?_, ?_, ?_, ?_, ?_, s2'⟩
  · rw [s2']; exact a1lo
  · rw [s2']; exact a1hi
  · rw [s2']; have := (abs_le.mp a1err).1; linarith
  · rw [s2']; have := (abs_le.mp a1err).2; linarith
  · show α = alphaQ σ φ
    rw [a1v]; unfold alphaQ omegaQ; rw [← hK, ← o2]

theorem mkCoeffs_ok (σ φ : ℚ) (ns nf : Bool) (hσ : σ ≤ 2 ^ 16) (hφ : 1 / 16 ≤ φ) (hn : 2 * φ ≤ σ)
    (hrσ : Rep σ) (hrφ : Rep φ) :
    ∃ c, mkCoeffs (.fin σ ns) (.fin φ nf) = some c ∧ c.a2 = zero ∧ c.b1 = zero ∧ c.b2 = zero ∧
      c.a1.isFin = true ∧ c.b0.isFin = true ∧ 2 ^ (-21:ℤ) ≤ c.b0.val ∧ c.b0.val ≤ 1 ∧
      -1 ≤ c.a1.val ∧ c.a1.val ≤ 0 ∧ -c.a1.val ≤ 1 - c.b0.val + 2 ^ (-25:ℤ) ∧
      1 - c.b0.val - 2 ^ (-25:ℤ) ≤ -c.a1.val := by
  obtain ⟨c, h0, h1, h2, h3, h4, h5, h6, h7, h8, h9, h10, h11, _, _⟩ := mkCoeffs_full σ φ ns nf hσ hφ hn hrσ hrφ
  exact ⟨c, h0, h1, h2, h3, h4, h5, h6, h7, h8, h9, h10, h11⟩

/-! ### the invariant of every `set_time` / `process` history -/

/-- configuration and coefficients: what `new` establishes and every `set_time` preserves -/
structure CInv (g : Glide) (σ : ℚ) (ns : Bool) : Prop where
  fs : g.fs = .fin σ ns
  lo : 100 ≤ σ
  hi : σ ≤ 48000
  rep : Rep σ
  minFc : g.minFc = ofRat (1 / 10)
  maxFc : g.maxFc = .fin (σ / 2) false
  one : OnePole g
  b0lo : 2 ^ (-21:ℤ) ≤ g.coeffs.b0.val
  b0hi : g.coeffs.b0.val ≤ 1
  a1lo : -1 ≤ g.coeffs.a1.val
  a1hi : g.coeffs.a1.val ≤ 0
  sum : -g.coeffs.a1.val ≤ 1 - g.coeffs.b0.val + 2 ^ (-25:ℤ)
  sum' : 1 - g.coeffs.b0.val - 2 ^ (-25:ℤ) ≤ -g.coeffs.a1.val

theorem rep_half {σ : ℚ} (h : Rep σ) (h1 : 1 ≤ σ) : Rep (σ / 2) := by
  obtain ⟨m, e, rfl, hm, he⟩ := h
  by_cases he' : -149 < e
  · refine ⟨m, e - 1, ?_, hm, by omega⟩
    rw [zpow_sub₀ (by norm_num : (2:ℚ) ≠ 0)]; ring
  · -- e = -149 would make |σ| < 2^-125 < 1
    exfalso
    have e149 : e = -149 := by omega
    subst e149
    have : |(m:ℚ) * 2 ^ (-149:ℤ)| < 1 := by
      rw [abs_mul, abs_of_pos (by positivity : (0:ℚ) < 2 ^ (-149:ℤ))]
      have hm' : |(m:ℚ)| < 2 ^ 24 := by
        have : |(m:ℚ)| = ((|m| : ℤ) : ℚ) := by push_cast; rfl
        rw [this]; exact_mod_cast hm
      calc |(m:ℚ)| * 2 ^ (-149:ℤ) < 2 ^ 24 * 2 ^ (-149:ℤ) := by
            apply mul_lt_mul_of_pos_right hm' (by positivity)
        _ < 1 := by norm_num
    have := abs_lt.mp this
    linarith

/-- every division result has a representable value -/
theorem div_rep (x y : F32) : Rep (div x y).val := by
  have hround : ∀ q zs, Rep (round q zs).val := by
    intro q zs
    rw [round_def]
    split
    · exact rep_zero
    · split
      · exact rep_zero
      · exact rep_rnd q
  cases x <;> cases y <;> simp only [div] <;> first | exact rep_zero | skip
  rename_i a na b nb
  split
  · split <;> exact rep_zero
  · exact hround _ _

/-- `GlideProcessor::new` for a representable sample rate in [100, 48000] -/
theorem new_inv (σ : ℚ) (ns : Bool) (lo : 100 ≤ σ) (hi : σ ≤ 48000) (hrep : Rep σ) :
    ∃ g, Glide.new (.fin σ ns) = some g ∧ CInv g σ ns ∧ g.x1 = zero ∧ g.x2 = zero ∧ g.y1 = zero ∧ g.y2 = zero := by
  have hhalf : Rep (σ / 2) := rep_half hrep (by linarith)
  have hσ0 : 0 < σ := by linarith
  have tw : two = .fin 2 false := rfl
  have hd : div (F32.fin σ ns) two = .fin (σ / 2) false := by
    rw [tw, div_fin _ _ _ _ (by norm_num), round_def, rnd_rep hhalf, qabs_eq, pow2_eq]
    have hov : ¬ ((2:ℚ) ^ (128:ℤ) ≤ |σ / 2|) := by
      rw [abs_of_nonneg (by positivity)]; apply not_le.mpr
      calc σ / 2 ≤ 48000 := by linarith
        _ < 2 ^ (128:ℤ) := by norm_num
    have hne : ((σ / 2) == 0) = false := by
      have : σ / 2 ≠ 0 := by positivity
      simpa using this
    rw [if_neg hov, hne]; simp
  obtain ⟨c, hc, c1, c2, c3, c4, c5, c6, c7, c8, c9, c10, c11⟩ :=
    mkCoeffs_ok σ (σ / 2) ns false (by linarith) (by linarith) (by linarith) hrep hhalf
  have hnew : Glide.new (.fin σ ns) = some
      { minFc := ofRat (1 / 10), maxFc := .fin (σ / 2) false, fs := .fin σ ns, coeffs := c, x1 := zero, x2 := zero,
        y1 := zero, y2 := zero, cachedT := .fin (-1) false } := by
    simp only [Glide.new, hd, hc]
  refine ⟨_, hnew, ?_, rfl, rfl, rfl, rfl⟩
  exact ⟨rfl, lo, hi, hrep, rfl, rfl, ⟨c1, c2, c3, c4, c5⟩, c6, c7, c8, c9, c10, c11⟩

/-- **every `set_time` call** — any f32 argument — succeeds and preserves the invariant; the filter memory is
untouched -/
theorem setTime_inv (g : Glide) (σ : ℚ) (ns : Bool) (h : CInv g σ ns) (t : F32) :
    ∃ g', g.setTime t = some g' ∧ CInv g' σ ns ∧ g'.x1 = g.x1 ∧ g'.x2 = g.x2 ∧ g'.y1 = g.y1 ∧ g'.y2 = g.y2 := by
  unfold Glide.setTime
  split
  · exact ⟨g, rfl, h, rfl, rfl, rfl, rfl⟩
  · obtain ⟨m1, m2, m3, m4⟩ := minFc_val
    have hσ0 : 0 < σ := by linarith [h.lo]
    -- the clamped cutoff
    have hcl := C20.max_min_clamp (ofRat (1 / 10)).val (σ / 2) (by linarith) (by positivity)
      (by linarith [h.lo]) (div one t)
    have hf0 : fmin (fmax (div one t) g.minFc) g.maxFc =
        C20.clampSpec (.fin (ofRat (1 / 10)).val false) (.fin (σ / 2) false) (div one t) := by
      rw [h.minFc, h.maxFc]; rw [m4] at *; exact hcl
    have hr := C20.clampSpec_range (lo := .fin (ofRat (1 / 10)).val false) (hi := .fin (σ / 2) false)
      rfl rfl (by linarith [h.lo]) (div one t)
    -- its value is representable: it is one of the bounds or the quotient itself
    have hrep : Rep (C20.clampSpec (.fin (ofRat (1 / 10)).val false) (.fin (σ / 2) false) (div one t)).val := by
      have r1 : Rep (ofRat (1 / 10)).val := by
        have : (ofRat (1 / 10)).val = rnd (1 / 10) := by decide +kernel
        rw [this]; exact rep_rnd _
      have r2 : Rep (σ / 2) := rep_half h.rep (by linarith [h.lo])
      unfold C20.clampSpec
      split
      · exact r1
      · split
        · exact r1
        · split
          · exact r2
          · exact div_rep one t
    dsimp only
    rw [hf0]
    cases hf : C20.clampSpec (.fin (ofRat (1 / 10)).val false) (.fin (σ / 2) false) (div one t) with
    | nan => rw [hf] at hr; simp at hr
    | inf s => rw [hf] at hr; simp at hr
    | fin φ nf =>
      rw [hf] at hr hrep
      simp only [val_fin] at hr hrep
      obtain ⟨c, hc, c1, c2, c3, c4, c5, c6, c7, c8, c9, c10, c11⟩ :=
        mkCoeffs_ok σ φ ns nf (by linarith [h.hi]) (by linarith [hr.2.1]) (by linarith [hr.2.2]) h.rep hrep
      rw [h.fs, hc]
      refine ⟨_, rfl, ?_, rfl, rfl, rfl, rfl⟩
      exact ⟨rfl, h.lo, h.hi, h.rep, h.minFc, h.maxFc, ⟨c1, c2, c3, c4, c5⟩, c6, c7, c8, c9, c10, c11⟩

/-- **coefficient signs in every reachable configuration** -/
theorem coeff_sign (g : Glide) (σ : ℚ) (ns : Bool) (h : CInv g σ ns) :
    0 < g.coeffs.b0.val ∧ g.coeffs.b0.val ≤ 1 ∧ -1 ≤ g.coeffs.a1.val ∧ g.coeffs.a1.val ≤ 0 :=
  ⟨lt_of_lt_of_le (by positivity) h.b0lo, h.b0hi, h.a1lo, h.a1hi⟩

/-! ### boundedness (coarse form of the range clause) and the model-level statements -/

/-- one step keeps `|y| ≤ 2M` when `|x| ≤ M`, for any coefficient pair the invariant allows -/
theorem step_bounded {α a1 x y M : ℚ} (hα : 2 ^ (-21:ℤ) ≤ α) (hα1 : α ≤ 1) (ha0 : a1 ≤ 0) (ha1 : -1 ≤ a1)
    (hsum : -a1 ≤ 1 - α + 2 ^ (-25:ℤ)) (hM : 1 ≤ M) (hx : |x| ≤ M) (hy : |y| ≤ 2 * M) :
    |stepQ α a1 x y| ≤ 2 * M := by
  unfold stepQ
  have eε : (2:ℚ) ^ (-24:ℤ) = 1 / 16777216 := by norm_num
  have eα : (2:ℚ) ^ (-21:ℤ) = 8 * (1 / 16777216) := by norm_num
  have e25 : (2:ℚ) ^ (-25:ℤ) = (1 / 16777216) / 2 := by norm_num
  have hδ : (2:ℚ) ^ (-150:ℤ) ≤ (1 / 16777216) / 4 := by norm_num
  have hδ0 : (0:ℚ) ≤ 2 ^ (-150:ℤ) := by positivity
  rw [eα] at hα; rw [e25] at hsum
  have α0 : 0 ≤ α := by linarith
  set c := -a1 with hc
  have c0 : 0 ≤ c := by linarith
  -- products
  have pA : |α * x| ≤ α * M := by rw [abs_mul, abs_of_nonneg α0]; exact mul_le_mul_of_nonneg_left hx α0
  have pE : |a1 * y| ≤ c * (2 * M) := by
    rw [abs_mul, abs_of_nonpos ha0]; exact mul_le_mul_of_nonneg_left hy c0
  have rA := abs_le.mp (rnd_err_gen (α * x))
  have rE := abs_le.mp (rnd_err_gen (a1 * y))
  have rO := abs_le.mp (rnd_err_gen (rnd (α * x) - rnd (a1 * y)))
  rw [eε] at rA rE rO
  generalize (2:ℚ) ^ (-150:ℤ) = δ at *
  have hA : |rnd (α * x)| ≤ α * M * (1 + 1 / 16777216) + δ := by
    have t := abs_sub_abs_le_abs_sub (rnd (α * x)) (α * x)
    have : |rnd (α * x) - α * x| ≤ 1 / 16777216 * |α * x| + δ := abs_le.mpr rA
    nlinarith [abs_nonneg (α * x)]
  have hE : |rnd (a1 * y)| ≤ c * (2 * M) * (1 + 1 / 16777216) + δ := by
    have t := abs_sub_abs_le_abs_sub (rnd (a1 * y)) (a1 * y)
    have : |rnd (a1 * y) - a1 * y| ≤ 1 / 16777216 * |a1 * y| + δ := abs_le.mpr rE
    nlinarith [abs_nonneg (a1 * y)]
  set A := rnd (α * x)
  set E := rnd (a1 * y)
  have hS : |A - E| ≤ |A| + |E| := abs_sub A E
  have hO : |rnd (A - E)| ≤ |A - E| * (1 + 1 / 16777216) + δ := by
    have t := abs_sub_abs_le_abs_sub (rnd (A - E)) (A - E)
    have : |rnd (A - E) - (A - E)| ≤ 1 / 16777216 * |A - E| + δ := abs_le.mpr rO
    nlinarith [abs_nonneg (A - E)]
  -- assemble
  have M0 : 0 ≤ M := by linarith
  have s1 : |A - E| ≤ (α + 2 * c) * M * (1 + 1 / 16777216) + 2 * δ := by nlinarith
  have s2 : α + 2 * c ≤ 2 - 7 * (1 / 16777216) := by linarith
  have s3 : (α + 2 * c) * M ≤ (2 - 7 * (1 / 16777216)) * M := mul_le_mul_of_nonneg_right s2 M0
  have s4 : |A - E| ≤ (2 - 7 * (1 / 16777216)) * M * (1 + 1 / 16777216) + 2 * δ := by nlinarith
  have hAE0 : 0 ≤ |A - E| := abs_nonneg _
  calc |rnd (A - E)| ≤ |A - E| * (1 + 1 / 16777216) + δ := hO
    _ ≤ ((2 - 7 * (1 / 16777216)) * M * (1 + 1 / 16777216) + 2 * δ) * (1 + 1 / 16777216) + δ := by nlinarith
    _ ≤ 2 * M := by nlinarith

/-- the state part of the invariant: finite memory, output bounded by `2M` -/
def SInv (M : ℚ) (g : Glide) : Prop :=
  g.x1.isFin = true ∧ g.x2.isFin = true ∧ g.y1.isFin = true ∧ g.y2.isFin = true ∧ |g.y1.val| ≤ 2 * M

/-- **one `process` call**: finite input bounded by `M` -/
theorem process_inv (g : Glide) (σ : ℚ) (ns : Bool) (M : ℚ) (hM : 1 ≤ M) (hM' : M ≤ 2 ^ (58:ℤ)) (h : CInv g σ ns)
    (hs : SInv M g) (x : F32) (hx : x.isFin = true) (hxM : |x.val| ≤ M) :
    CInv (g.process x).1 σ ns ∧ SInv M (g.process x).1 ∧ (g.process x).2.isFin = true ∧
    (g.process x).2.val = stepQ g.coeffs.b0.val g.coeffs.a1.val x.val g.y1.val ∧
    (g.process x).1.y1 = (g.process x).2 ∧ (g.process x).1.coeffs = g.coeffs ∧ |(g.process x).2.val| ≤ 2 * M := by
  obtain ⟨f1, f2, f3, f4, hy⟩ := hs
  have hb0 : |g.coeffs.b0.val| ≤ 1 := by
    rw [abs_of_nonneg (le_trans (by positivity) h.b0lo)]; exact h.b0hi
  have ha1 : |g.coeffs.a1.val| ≤ 1 := by rw [abs_of_nonpos h.a1hi]; linarith [h.a1lo]
  have hB : (2:ℚ) * M ≤ 2 ^ (60:ℤ) := by
    calc 2 * M ≤ 2 * 2 ^ (58:ℤ) := by linarith
      _ ≤ 2 ^ (60:ℤ) := by norm_num
  have pv := process_val g x (2 * M) (by linarith) hB h.one ⟨f1, f2, f3, f4, hy⟩ hx (by linarith) hb0 ha1
  obtain ⟨p1, p2, p3, p4, p5, p6, p7, p8, p9, p10, p11⟩ := pv
  have hbound : |(g.process x).2.val| ≤ 2 * M := by
    rw [p2]; exact step_bounded h.b0lo h.b0hi h.a1hi h.a1lo h.sum hM hxM hy
  refine ⟨?_, ?_, p1, p2, p3, p7, hbound⟩
  · exact ⟨by rw [p9]; exact h.fs, h.lo, h.hi, h.rep, by rw [p10]; exact h.minFc, by rw [p11]; exact h.maxFc,
      ⟨by rw [p7]; exact h.one.a2, by rw [p7]; exact h.one.b1, by rw [p7]; exact h.one.b2,
       by rw [p7]; exact h.one.a1f, by rw [p7]; exact h.one.b0f⟩,
      by rw [p7]; exact h.b0lo, by rw [p7]; exact h.b0hi, by rw [p7]; exact h.a1lo, by rw [p7]; exact h.a1hi,
      by rw [p7]; exact h.sum, by rw [p7]; exact h.sum'⟩
  · refine ⟨by rw [p4]; exact hx, by rw [p5]; exact f1, by rw [p3]; exact p1, by rw [p6]; exact f3, ?_⟩
    rw [p3]; exact hbound

inductive Op
  | setTime (t : F32)
  | process (x : F32)

/-- run a history; `none` = panic; collects the outputs -/
def run (g : Glide) : List Op → Option (Glide × List F32)
  | [] => some (g, [])
  | .setTime t :: ops => match g.setTime t with
    | none => none
    | some g' => run g' ops
  | .process x :: ops => match run (g.process x).1 ops with
    | none => none
    | some (g', ys) => some (g', (g.process x).2 :: ys)

def inputsOk (M : ℚ) : List Op → Prop
  | [] => True
  | .setTime _ :: ops => inputsOk M ops
  | .process x :: ops => x.isFin = true ∧ |x.val| ≤ M ∧ inputsOk M ops

/-- **C13, histories (coarse range).**  For a sample rate in [100, 48000] Hz, every history of `set_time` calls with
arbitrary f32 arguments and `process` calls with finite inputs bounded by `M` runs without panic, keeps the filter a
monotone one-pole (`CInv`), and every output is finite with `|y| ≤ 2M`. -/
theorem bounded_partial (g : Glide) (σ : ℚ) (ns : Bool) (M : ℚ) (hM : 1 ≤ M) (hM' : M ≤ 2 ^ (58:ℤ))
    (h : CInv g σ ns) (hs : SInv M g) (ops : List Op) (hi : inputsOk M ops) :
    ∃ g' ys, run g ops = some (g', ys) ∧ CInv g' σ ns ∧ SInv M g' ∧ ∀ y ∈ ys, y.isFin = true ∧ |y.val| ≤ 2 * M := by
  induction ops generalizing g with
  | nil => exact ⟨g, [], rfl, h, hs, by simp⟩
  | cons o ops ih =>
    cases o with
    | setTime t =>
      obtain ⟨g1, e1, c1, x1, x2, y1, y2⟩ := setTime_inv g σ ns h t
      have hs1 : SInv M g1 := by
        obtain ⟨f1, f2, f3, f4, hy⟩ := hs
        exact ⟨by rw [x1]; exact f1, by rw [x2]; exact f2, by rw [y1]; exact f3, by rw [y2]; exact f4, by rw [y1]; exact hy⟩
      obtain ⟨g', ys, hr, c', s', hall⟩ := ih g1 c1 hs1 hi
      have : run g (.setTime t :: ops) = (match g.setTime t with | none => none | some g' => run g' ops) := rfl
      exact ⟨g', ys, by rw [this, e1]; exact hr, c', s', hall⟩
    | process x =>
      obtain ⟨hx, hxM, hrest⟩ := hi
      obtain ⟨c1, s1, o1, _, _, _, ob⟩ := process_inv g σ ns M hM hM' h hs x hx hxM
      obtain ⟨g', ys, hr, c', s', hall⟩ := ih (g.process x).1 c1 s1 hrest
      have : run g (.process x :: ops) = (match run (g.process x).1 ops with
        | none => none | some (g', ys) => some (g', (g.process x).2 :: ys)) := rfl
      refine ⟨g', (g.process x).2 :: ys, by rw [this, hr], c', s', ?_⟩
      intro y hy
      simp only [List.mem_cons] at hy
      rcases hy with rfl | hy
      · exact ⟨o1, ob⟩
      · exact hall y hy

/-- the filter output after `n` further samples of a held input `x` (no `set_time` in between) is the `n`-fold
iterate of the monotone step -/
theorem held_input_iter (g : Glide) (σ : ℚ) (ns : Bool) (M : ℚ) (hM : 1 ≤ M) (hM' : M ≤ 2 ^ (58:ℤ))
    (h : CInv g σ ns) (hs : SInv M g) (x : F32) (hx : x.isFin = true) (hxM : |x.val| ≤ M) (n : ℕ) :
    ∃ g', CInv g' σ ns ∧ SInv M g' ∧ g'.coeffs = g.coeffs ∧
      g' = (fun s => (Glide.process s x).1)^[n] g ∧
      g'.y1.val = iter g.coeffs.b0.val g.coeffs.a1.val x.val g.y1.val n := by
  induction n with
  | zero => exact ⟨g, h, hs, rfl, rfl, rfl⟩
  | succ n ih =>
    obtain ⟨g1, c1, s1, hc, hg, hy⟩ := ih
    obtain ⟨c2, s2, _, v2, y2, k2, _⟩ := process_inv g1 σ ns M hM hM' c1 s1 x hx hxM
    refine ⟨(g1.process x).1, c2, s2, by rw [k2, hc], ?_, ?_⟩
    · rw [Function.iterate_succ_apply', ← hg]
    · rw [y2, v2, hc, hy]; rfl

/-- **C13, no ringing (model level).**  With the input held at a finite `x` and no `set_time` call, the output
sequence of the filter is monotone from the first sample on: it never reverses direction. -/
theorem held_input_monotone (g : Glide) (σ : ℚ) (ns : Bool) (M : ℚ) (hM : 1 ≤ M) (hM' : M ≤ 2 ^ (58:ℤ))
    (h : CInv g σ ns) (hs : SInv M g) (x : F32) (hx : x.isFin = true) (hxM : |x.val| ≤ M) :
    let y := fun n => ((fun s => (Glide.process s x).1)^[n] g).y1.val
    (y 0 ≤ y 1 → ∀ n, y n ≤ y (n + 1)) ∧ (y 1 ≤ y 0 → ∀ n, y (n + 1) ≤ y n) := by
  have key : ∀ n, ((fun s => (Glide.process s x).1)^[n] g).y1.val = iter g.coeffs.b0.val g.coeffs.a1.val x.val g.y1.val n := by
    intro n
    obtain ⟨g', _, _, _, hg, hy⟩ := held_input_iter g σ ns M hM hM' h hs x hx hxM n
    rw [← hg, hy]
  have nr := no_ringing g.coeffs.b0.val g.coeffs.a1.val x.val g.y1.val h.a1hi
  simp only [key]
  exact nr

/-- non-vacuity: a 1 kHz processor, `set_time(0)` in mid-glide (the sequence that rang before the repair) -/
example : ((Glide.new (ofBits 0x447a0000)).bind fun g => run g
    [.setTime (ofBits 0x3f000000), .process one, .process one, .setTime zero, .process one, .process one]).map
      (fun r => r.2.map toBits) = some [1011569936, 1019875856, 1061402229, 1064399238] := by decide +kernel

end C13
