import SynthVerif.Props.C03
import SynthVerif.Props.ExpLemmas
/-!
# C01, curve fidelity — the envelope follows the documented RC curves

The tables are generated (`non_rust_utils/lookup_table_gen.py`) from
`attack(x) = (1 − e^(−4x/3)) / (1 − e^(−4/3))` (a rising RC curve aiming at 3× full scale, truncated at full scale)
and `decay(x) = (e^(−4x) − e^(−4)) / (1 − e^(−4))` (a falling RC curve over four time constants), `x ∈ [0, 1]`.

* `decay_table_close`, `attack_table_close`: every one of the 1024 binary32 entries of the regenerated tables is within
  `6.2·10^-5` of the curve at `i/1023`.  Proof: the exact curve satisfies an affine recurrence `g(i+1) = ρ·g(i) ∓ c` with
  `ρ = e^(−4/1023)` (resp. `e^(−4/3069)`); the kernel checks the same recurrence on the table entries with rational
  `ρ̂, ĉ` up to `6·10^-8` per step, and `ρ, c` are enclosed by Taylor bounds (`ExpLemmas.lean`); errors add up linearly.
* `sample_fidelity_*`: at every one of the 2^24 counter positions the interpolated sample is within `0.0041` of the curve
  at the phase `p = acc/2^24` — table error + chord error `(4/1023)²` + the stretch `1024/1023` between phase and table
  position (`≤ slope/1024`) + rounding.
* `fidelity`: every output of a tick inside a timed phase is within `0.005` (0.5 % of full scale) of the documented curve
  stretched between the level at which the phase started and the phase's target level.
-/
namespace C01.Fidelity
open F32 AdsrTab C01 Real

/-! ### the recurrences, checked on the tables by the kernel -/

def rhoDq : ℚ := 498048782969 / 500000000000
def cDq : ℚ := 72809119 / 1000000000000
def rhoAq : ℚ := 499348746429 / 500000000000
def cAq : ℚ := 22109283 / 12500000000
def tauq : ℚ := 6 / 100000000

def decRecOk (b0 b1 : ℕ) : Bool := decide (|(ofBits b1).val - (rhoDq * (ofBits b0).val - cDq)| ≤ tauq)
def attRecOk (b0 b1 : ℕ) : Bool := decide (|(ofBits b1).val - (rhoAq * (ofBits b0).val + cAq)| ≤ tauq)

theorem decay_rec_table : allPairs decRecOk Gen.decayBitsL = true := by decide +kernel
theorem attack_rec_table : allPairs attRecOk Gen.attackBitsL = true := by decide +kernel

theorem decay_rec (i : ℕ) (hi : i < 1023) : |Dq (i + 1) - (rhoDq * Dq i - cDq)| ≤ tauq := by
  have := allPairs_get decRecOk Gen.decayBitsL decay_rec_table i (by rw [decay_len]; omega)
  simpa [decRecOk, Dq] using this

theorem attack_rec (i : ℕ) (hi : i < 1023) : |Aq (i + 1) - (rhoAq * Aq i + cAq)| ≤ tauq := by
  have := allPairs_get attRecOk Gen.attackBitsL attack_rec_table i (by rw [attack_len]; omega)
  simpa [attRecOk, Aq] using this

/-! ### the documented curves -/

/-- falling RC curve over four time constants, normalised to run from 1 to 0 -/
noncomputable def GD (x : ℝ) : ℝ := (exp (-(4 * x)) - exp (-4)) / (1 - exp (-4))
/-- rising RC curve aiming at three times full scale, truncated and normalised to run from 0 to 1 -/
noncomputable def GA (x : ℝ) : ℝ := (1 - exp (-(4 * x / 3))) / (1 - exp (-(4 / 3)))

theorem E4_lt_one : exp (-4) < 1 / 50 := by have := Fid.exp_neg4_enc.2; norm_num at this ⊢; linarith
theorem E4_pos : 0 < exp (-4 : ℝ) := exp_pos _
theorem U_lt : exp (-(4 / 3) : ℝ) < 3 / 10 := by have := Fid.exp_neg43_enc.2; norm_num at this ⊢; linarith
theorem U_gt : (1 / 4 : ℝ) < exp (-(4 / 3)) := by have := Fid.exp_neg43_enc.1; norm_num at this ⊢; linarith

theorem GD_zero : GD 0 = 1 := by
  unfold GD; simp only [mul_zero, neg_zero, exp_zero]
  have : (1:ℝ) - exp (-4) ≠ 0 := by have := E4_lt_one; linarith
  field_simp

theorem GA_zero : GA 0 = 0 := by unfold GA; simp

/-- the exact recurrence of the decay curve along the grid `i/1023` -/
theorem GD_rec (i : ℕ) :
    GD ((i + 1 : ℕ) / 1023) = exp (-(4 / 1023)) * GD (i / 1023) -
      (1 - exp (-(4 / 1023))) * (exp (-4) / (1 - exp (-4))) := by
  unfold GD
  have hne : (1:ℝ) - exp (-4) ≠ 0 := by have := E4_lt_one; linarith
  have e : exp (-(4 * (((i + 1 : ℕ) : ℝ) / 1023))) = exp (-(4 / 1023)) * exp (-(4 * ((i : ℝ) / 1023))) := by
    rw [← exp_add]; congr 1; push_cast; ring
  rw [e]; field_simp; ring

theorem GA_rec (i : ℕ) :
    GA ((i + 1 : ℕ) / 1023) = exp (-(4 / 3069)) * GA (i / 1023) +
      (1 - exp (-(4 / 3069))) * (1 / (1 - exp (-(4 / 3)))) := by
  unfold GA
  have hne : (1:ℝ) - exp (-(4 / 3)) ≠ 0 := by have := U_lt; linarith
  have e : exp (-(4 * (((i + 1 : ℕ) : ℝ) / 1023) / 3)) = exp (-(4 / 3069)) * exp (-(4 * ((i : ℝ) / 1023) / 3)) := by
    rw [← exp_add]; congr 1; push_cast; ring
  rw [e]; field_simp; ring

/-- the additive constants of the two recurrences agree with the rationals the kernel used -/
theorem cD_enc : |(cDq : ℝ) - (1 - exp (-(4 / 1023))) * (exp (-4) / (1 - exp (-4)))| ≤ 1 / 10 ^ 11 := by
  obtain ⟨l4, u4⟩ := Fid.exp_neg4_enc
  have hr := abs_le.mp Fid.rhoD_enc
  unfold Fid.rhoD at hr
  set ρ := exp (-(4 / 1023)) with hρ
  set E := exp (-4 : ℝ) with hE
  have h1E : 0 < 1 - E := by have := E4_lt_one; linarith
  -- K = E/(1−E) between its values at the ends of the enclosure
  have K1 : (18315638884 / 10 ^ 12 : ℝ) / (1 - 18315638884 / 10 ^ 12) ≤ E / (1 - E) := by
    rw [div_le_div_iff₀ (by norm_num) h1E]; nlinarith
  have K2 : E / (1 - E) ≤ (18315638895 / 10 ^ 12 : ℝ) / (1 - 18315638895 / 10 ^ 12) := by
    rw [div_le_div_iff₀ h1E (by norm_num)]; nlinarith
  set K := E / (1 - E) with hK
  have K0 : 0 ≤ K := le_trans (by norm_num) K1
  have r1 : (1 - (498048782969 / 500000000000 + 1 / 10 ^ 11) : ℝ) ≤ 1 - ρ := by linarith [hr.2]
  have r2 : 1 - ρ ≤ (1 - (498048782969 / 500000000000 - 1 / 10 ^ 11) : ℝ) := by linarith [hr.1]
  have r0 : 0 ≤ 1 - ρ := le_trans (by norm_num) r1
  have lo : (1 - (498048782969 / 500000000000 + 1 / 10 ^ 11) : ℝ) * ((18315638884 / 10 ^ 12 : ℝ) / (1 - 18315638884 / 10 ^ 12)) ≤ (1 - ρ) * K :=
    mul_le_mul r1 K1 (by norm_num) r0
  have hi : (1 - ρ) * K ≤ (1 - (498048782969 / 500000000000 - 1 / 10 ^ 11) : ℝ) * ((18315638895 / 10 ^ 12 : ℝ) / (1 - 18315638895 / 10 ^ 12)) :=
    mul_le_mul r2 K2 K0 (by norm_num)
  have n1 : (cDq : ℝ) - 1 / 10 ^ 11 ≤ (1 - (498048782969 / 500000000000 + 1 / 10 ^ 11) : ℝ) * ((18315638884 / 10 ^ 12 : ℝ) / (1 - 18315638884 / 10 ^ 12)) := by
    unfold cDq; norm_num
  have n2 : (1 - (498048782969 / 500000000000 - 1 / 10 ^ 11) : ℝ) * ((18315638895 / 10 ^ 12 : ℝ) / (1 - 18315638895 / 10 ^ 12)) ≤ (cDq : ℝ) + 1 / 10 ^ 11 := by
    unfold cDq; norm_num
  rw [abs_le]; constructor <;> linarith

theorem cA_enc : |(cAq : ℝ) - (1 - exp (-(4 / 3069))) * (1 / (1 - exp (-(4 / 3))))| ≤ 1 / 10 ^ 10 := by
  obtain ⟨l, u⟩ := Fid.exp_neg43_enc
  have hr := abs_le.mp Fid.rhoA_enc
  unfold Fid.rhoA at hr
  set σ := exp (-(4 / 3069)) with hσ
  set U := exp (-(4 / 3) : ℝ) with hU
  have h1U : 0 < 1 - U := by have := U_lt; linarith
  have K1 : (1:ℝ) / (1 - 2635971380 / 10 ^ 10) ≤ 1 / (1 - U) := by
    rw [div_le_div_iff₀ (by norm_num) h1U]; linarith
  have K2 : 1 / (1 - U) ≤ (1:ℝ) / (1 - 2635971382 / 10 ^ 10) := by
    rw [div_le_div_iff₀ h1U (by norm_num)]; linarith
  set K := 1 / (1 - U) with hK
  have K0 : 0 ≤ K := le_trans (by norm_num) K1
  have r1 : (1 - (499348746429 / 500000000000 + 1 / 10 ^ 11) : ℝ) ≤ 1 - σ := by linarith [hr.2]
  have r2 : 1 - σ ≤ (1 - (499348746429 / 500000000000 - 1 / 10 ^ 11) : ℝ) := by linarith [hr.1]
  have r0 : 0 ≤ 1 - σ := le_trans (by norm_num) r1
  have lo : (1 - (499348746429 / 500000000000 + 1 / 10 ^ 11) : ℝ) * ((1:ℝ) / (1 - 2635971380 / 10 ^ 10)) ≤ (1 - σ) * K :=
    mul_le_mul r1 K1 (by norm_num) r0
  have hi : (1 - σ) * K ≤ (1 - (499348746429 / 500000000000 - 1 / 10 ^ 11) : ℝ) * ((1:ℝ) / (1 - 2635971382 / 10 ^ 10)) :=
    mul_le_mul r2 K2 K0 (by norm_num)
  have n1 : (cAq : ℝ) - 1 / 10 ^ 10 ≤ (1 - (499348746429 / 500000000000 + 1 / 10 ^ 11) : ℝ) * ((1:ℝ) / (1 - 2635971380 / 10 ^ 10)) := by
    unfold cAq; norm_num
  have n2 : (1 - (499348746429 / 500000000000 - 1 / 10 ^ 11) : ℝ) * ((1:ℝ) / (1 - 2635971382 / 10 ^ 10)) ≤ (cAq : ℝ) + 1 / 10 ^ 10 := by
    unfold cAq; norm_num
  rw [abs_le]; constructor <;> linarith

/-! ### every table entry is on the curve -/

theorem rhoD_cast : ((rhoDq : ℚ) : ℝ) = Fid.rhoD := by unfold rhoDq Fid.rhoD; norm_num
theorem rhoA_cast : ((rhoAq : ℚ) : ℝ) = Fid.rhoA := by unfold rhoAq Fid.rhoA; norm_num

theorem Dq_zero : Dq 0 = 1 := by unfold Dq; rw [decay_first]; rfl
theorem Aq_zero : Aq 0 = 0 := by unfold Aq; rw [attack_first]; rfl

/-- **decay table**: entry `i` is within `i·6.1·10^-8` of the documented curve at `i/1023` -/
theorem decay_table_close (i : ℕ) (hi : i ≤ 1023) : |((Dq i : ℚ) : ℝ) - GD (i / 1023)| ≤ i * (61 / 10 ^ 9) := by
  induction i with
  | zero => simp [Dq_zero, GD_zero]
  | succ i ih =>
    have ih' := ih (by omega)
    have hrec : |((Dq (i + 1) : ℚ) : ℝ) - (Fid.rhoD * ((Dq i : ℚ) : ℝ) - ((cDq : ℚ) : ℝ))| ≤ 6 / 100000000 := by
      have h := decay_rec i (by omega)
      have h' : ((|Dq (i + 1) - (rhoDq * Dq i - cDq)| : ℚ) : ℝ) ≤ ((tauq : ℚ) : ℝ) := by exact_mod_cast h
      rw [Rat.cast_abs] at h'
      push_cast at h'
      rw [rhoD_cast] at h'
      unfold tauq at h'; push_cast at h'
      exact h'
    obtain ⟨_, d0, d1⟩ := decay_entry i (by omega)
    have d0' : (0:ℝ) ≤ ((Dq i : ℚ) : ℝ) := by exact_mod_cast d0
    have d1' : ((Dq i : ℚ) : ℝ) ≤ 1 := by exact_mod_cast d1
    have hρ := abs_le.mp Fid.rhoD_enc
    have hc := abs_le.mp cD_enc
    have ρ0 : 0 ≤ exp (-(4 / 1023) : ℝ) := (exp_pos _).le
    have ρ1 : exp (-(4 / 1023) : ℝ) ≤ 1 := by rw [← exp_zero]; exact exp_le_exp.mpr (by norm_num)
    rw [GD_rec i]
    set ρ := exp (-(4 / 1023) : ℝ) with hρd
    set c := (1 - ρ) * (exp (-4) / (1 - exp (-4))) with hcd
    set d := ((Dq i : ℚ) : ℝ) with hd
    set g := GD (i / 1023) with hg
    have hr := abs_le.mp hrec
    have hi' := abs_le.mp ih'
    have e1 : -(1 / 10 ^ 11) ≤ (Fid.rhoD - ρ) * d ∧ (Fid.rhoD - ρ) * d ≤ 1 / 10 ^ 11 := by
      constructor <;> nlinarith [hρ.1, hρ.2]
    have e2 : -(↑i * (61 / 10 ^ 9)) ≤ ρ * (d - g) ∧ ρ * (d - g) ≤ ↑i * (61 / 10 ^ 9) := by
      have i0 : (0:ℝ) ≤ ↑i * (61 / 10 ^ 9) := by positivity
      constructor <;> nlinarith [hi'.1, hi'.2]
    have split : ((Dq (i + 1) : ℚ) : ℝ) - (ρ * g - c) =
        (((Dq (i + 1) : ℚ) : ℝ) - (Fid.rhoD * d - ((cDq : ℚ) : ℝ))) + (Fid.rhoD - ρ) * d - (((cDq : ℚ) : ℝ) - c) + ρ * (d - g) := by
      ring
    rw [split, abs_le]
    push_cast
    constructor <;> linarith [hr.1, hr.2, hc.1, hc.2, e1.1, e1.2, e2.1, e2.2]

/-- **attack table**: entry `i` is within `i·6.1·10^-8` of the documented curve at `i/1023` -/
theorem attack_table_close (i : ℕ) (hi : i ≤ 1023) : |((Aq i : ℚ) : ℝ) - GA (i / 1023)| ≤ i * (61 / 10 ^ 9) := by
  induction i with
  | zero => simp [Aq_zero, GA_zero]
  | succ i ih =>
    have ih' := ih (by omega)
    have hrec : |((Aq (i + 1) : ℚ) : ℝ) - (Fid.rhoA * ((Aq i : ℚ) : ℝ) + ((cAq : ℚ) : ℝ))| ≤ 6 / 100000000 := by
      have h := attack_rec i (by omega)
      have h' : ((|Aq (i + 1) - (rhoAq * Aq i + cAq)| : ℚ) : ℝ) ≤ ((tauq : ℚ) : ℝ) := by exact_mod_cast h
      rw [Rat.cast_abs] at h'
      push_cast at h'
      rw [rhoA_cast] at h'
      unfold tauq at h'; push_cast at h'
      exact h'
    obtain ⟨_, d0, d1⟩ := attack_entry i (by omega)
    have d0' : (0:ℝ) ≤ ((Aq i : ℚ) : ℝ) := by exact_mod_cast d0
    have d1' : ((Aq i : ℚ) : ℝ) ≤ 1 := by exact_mod_cast d1
    have hρ := abs_le.mp Fid.rhoA_enc
    have hc := abs_le.mp cA_enc
    have ρ0 : 0 ≤ exp (-(4 / 3069) : ℝ) := (exp_pos _).le
    have ρ1 : exp (-(4 / 3069) : ℝ) ≤ 1 := by rw [← exp_zero]; exact exp_le_exp.mpr (by norm_num)
    rw [GA_rec i]
    set ρ := exp (-(4 / 3069) : ℝ) with hρd
    set c := (1 - ρ) * (1 / (1 - exp (-(4 / 3)))) with hcd
    set d := ((Aq i : ℚ) : ℝ) with hd
    set g := GA (i / 1023) with hg
    have hr := abs_le.mp hrec
    have hi' := abs_le.mp ih'
    have e1 : -(1 / 10 ^ 11) ≤ (Fid.rhoA - ρ) * d ∧ (Fid.rhoA - ρ) * d ≤ 1 / 10 ^ 11 := by
      constructor <;> nlinarith [hρ.1, hρ.2]
    have e2 : -(↑i * (61 / 10 ^ 9)) ≤ ρ * (d - g) ∧ ρ * (d - g) ≤ ↑i * (61 / 10 ^ 9) := by
      have i0 : (0:ℝ) ≤ ↑i * (61 / 10 ^ 9) := by positivity
      constructor <;> nlinarith [hi'.1, hi'.2]
    have split : ((Aq (i + 1) : ℚ) : ℝ) - (ρ * g + c) =
        (((Aq (i + 1) : ℚ) : ℝ) - (Fid.rhoA * d + ((cAq : ℚ) : ℝ))) + (Fid.rhoA - ρ) * d + (((cAq : ℚ) : ℝ) - c) + ρ * (d - g) := by
      ring
    rw [split, abs_le]
    push_cast
    constructor <;> linarith [hr.1, hr.2, hc.1, hc.2, e1.1, e1.2, e2.1, e2.2]

/-- uniform form: every entry within `6.3·10^-5` -/
theorem decay_table_eta (i : ℕ) (hi : i ≤ 1023) : |((Dq i : ℚ) : ℝ) - GD (i / 1023)| ≤ 63 / 10 ^ 6 := by
  refine le_trans (decay_table_close i hi) ?_
  have : (i:ℝ) ≤ 1023 := by exact_mod_cast hi
  nlinarith

theorem attack_table_eta (i : ℕ) (hi : i ≤ 1023) : |((Aq i : ℚ) : ℝ) - GA (i / 1023)| ≤ 63 / 10 ^ 6 := by
  refine le_trans (attack_table_close i hi) ?_
  have : (i:ℝ) ≤ 1023 := by exact_mod_cast hi
  nlinarith

/-! ### between the grid points: chord error, and the stretch between phase and table position -/

/-- chord of `exp(−k·)` across one table cell -/
theorem cell_chord (k : ℝ) (k0 : 0 ≤ k) (k4 : k ≤ 4) (i : ℕ) (f : ℝ) (f0 : 0 ≤ f) (f1 : f ≤ 1) :
    |(1 - f) * exp (-(k * ((i:ℝ) / 1023))) + f * exp (-(k * (((i + 1 : ℕ) : ℝ) / 1023))) -
        exp (-(k * (((i:ℝ) + f) / 1023)))| ≤ (k / 1023) ^ 2 := by
  have t0 : 0 ≤ k / 1023 := by positivity
  have t1 : k / 1023 ≤ 1 := by rw [div_le_one (by norm_num)]; linarith
  have hc := Fid.chord_exp t0 t1 f0 f1
  have e1 : exp (-(k * (((i + 1 : ℕ) : ℝ) / 1023))) = exp (-(k * ((i:ℝ) / 1023))) * exp (-(k / 1023)) := by
    rw [← exp_add]; congr 1; push_cast; ring
  have e2 : exp (-(k * (((i:ℝ) + f) / 1023))) = exp (-(k * ((i:ℝ) / 1023))) * exp (-(f * (k / 1023))) := by
    rw [← exp_add]; congr 1; ring
  rw [e1, e2]
  set b := exp (-(k * ((i:ℝ) / 1023))) with hb
  have b0 : 0 ≤ b := (exp_pos _).le
  have b1 : b ≤ 1 := by
    have hnn : 0 ≤ k * ((i:ℝ) / 1023) := by positivity
    rw [hb, ← exp_zero]; exact exp_le_exp.mpr (by linarith)
  have fac : (1 - f) * b + f * (b * exp (-(k / 1023))) - b * exp (-(f * (k / 1023))) =
      b * ((1 - f) + f * exp (-(k / 1023)) - exp (-(f * (k / 1023)))) := by ring
  rw [fac, abs_mul, abs_of_nonneg b0]
  calc b * |(1 - f) + f * exp (-(k / 1023)) - exp (-(f * (k / 1023)))| ≤ 1 * (k / 1023) ^ 2 :=
        mul_le_mul b1 hc (abs_nonneg _) (by norm_num)
    _ = (k / 1023) ^ 2 := one_mul _

theorem GD_lipschitz {x y : ℝ} (hx : 0 ≤ x) (hy : 0 ≤ y) : |GD x - GD y| ≤ 4 * |x - y| * (50 / 49) := by
  unfold GD
  have h1E : 49 / 50 < 1 - exp (-4 : ℝ) := by have := E4_lt_one; linarith
  have hl := Fid.exp_neg_lipschitz (a := 4 * x) (b := 4 * y) (by positivity) (by positivity)
  have e : (exp (-(4 * x)) - exp (-4)) / (1 - exp (-4)) - (exp (-(4 * y)) - exp (-4)) / (1 - exp (-4)) =
      (exp (-(4 * x)) - exp (-(4 * y))) / (1 - exp (-4)) := by ring
  rw [e, abs_div, abs_of_pos (by linarith : (0:ℝ) < 1 - exp (-4))]
  have h4 : |4 * x - 4 * y| = 4 * |x - y| := by
    rw [← mul_sub, abs_mul, abs_of_pos (by norm_num : (0:ℝ) < 4)]
  rw [h4] at hl
  rw [div_le_iff₀ (by linarith)]
  have : 0 ≤ 4 * |x - y| := by positivity
  nlinarith

theorem GA_lipschitz {x y : ℝ} (hx : 0 ≤ x) (hy : 0 ≤ y) : |GA x - GA y| ≤ 4 / 3 * |x - y| * (10 / 7) := by
  unfold GA
  have h1U : 7 / 10 < 1 - exp (-(4 / 3) : ℝ) := by have := U_lt; linarith
  have hl := Fid.exp_neg_lipschitz (a := 4 * x / 3) (b := 4 * y / 3) (by positivity) (by positivity)
  have e : (1 - exp (-(4 * x / 3))) / (1 - exp (-(4 / 3))) - (1 - exp (-(4 * y / 3))) / (1 - exp (-(4 / 3))) =
      (exp (-(4 * y / 3)) - exp (-(4 * x / 3))) / (1 - exp (-(4 / 3))) := by ring
  rw [e, abs_div, abs_of_pos (by linarith : (0:ℝ) < 1 - exp (-(4 / 3))), abs_sub_comm]
  have h4 : |4 * x / 3 - 4 * y / 3| = 4 / 3 * |x - y| := by
    have : 4 * x / 3 - 4 * y / 3 = 4 / 3 * (x - y) := by ring
    rw [this, abs_mul, abs_of_pos (by norm_num : (0:ℝ) < 4 / 3)]
  rw [h4] at hl
  rw [div_le_iff₀ (by linarith)]
  have : 0 ≤ 4 / 3 * |x - y| := by positivity
  nlinarith

/-- generic: a table close to a curve on the grid `i/1023`, interpolated linearly along the 1024 cells of the phase,
is close to the curve along the phase -/
theorem interp_close (t : ℕ → ℝ) (G : ℝ → ℝ) (η χ L : ℝ) (L0 : 0 ≤ L)
    (hη : ∀ i, i ≤ 1023 → |t i - G (i / 1023)| ≤ η)
    (hch : ∀ (i : ℕ) (f : ℝ), i < 1023 → 0 ≤ f → f ≤ 1 →
      |(1 - f) * G (i / 1023) + f * G (((i + 1 : ℕ) : ℝ) / 1023) - G (((i:ℝ) + f) / 1023)| ≤ χ)
    (hlip : ∀ x y : ℝ, 0 ≤ x → 0 ≤ y → |G x - G y| ≤ L * |x - y|)
    (i : ℕ) (hi : i ≤ 1023) (f : ℝ) (f0 : 0 ≤ f) (f1 : f ≤ 1) :
    |t i + (t (C03.nxt i) - t i) * f - G (((i:ℝ) + f) / 1024)| ≤ η + χ + L / 1024 := by
  have i0 : (0:ℝ) ≤ i := by positivity
  have i1 : (i:ℝ) ≤ 1023 := by exact_mod_cast hi
  by_cases h : i < 1023
  · have en : C03.nxt i = i + 1 := by unfold C03.nxt; omega
    rw [en]
    have a := abs_le.mp (hη i hi)
    have b := abs_le.mp (hη (i + 1) (by omega))
    have c := abs_le.mp (hch i f h f0 f1)
    have hx : |((i:ℝ) + f) / 1023 - ((i:ℝ) + f) / 1024| ≤ 1 / 1024 := by
      have il : (i:ℝ) ≤ 1022 := by
        have : i ≤ 1022 := by omega
        exact_mod_cast this
      have e : ((i:ℝ) + f) / 1023 - ((i:ℝ) + f) / 1024 = ((i:ℝ) + f) / (1023 * 1024) := by ring
      rw [e, abs_of_nonneg (by positivity), div_le_div_iff₀ (by norm_num) (by norm_num)]
      nlinarith
    have d := abs_le.mp (le_trans (hlip (((i:ℝ) + f) / 1023) (((i:ℝ) + f) / 1024) (by positivity) (by positivity))
      (mul_le_mul_of_nonneg_left hx L0))
    have e1 : (1 - f) * (t i - G (i / 1023)) ≤ (1 - f) * η := mul_le_mul_of_nonneg_left a.2 (by linarith)
    have e2 : (1 - f) * (-η) ≤ (1 - f) * (t i - G (i / 1023)) := mul_le_mul_of_nonneg_left (by linarith [a.1]) (by linarith)
    have e3 : f * (t (i + 1) - G (((i + 1 : ℕ) : ℝ) / 1023)) ≤ f * η := mul_le_mul_of_nonneg_left b.2 f0
    have e4 : f * (-η) ≤ f * (t (i + 1) - G (((i + 1 : ℕ) : ℝ) / 1023)) := mul_le_mul_of_nonneg_left (by linarith [b.1]) f0
    have eL : L * (1 / 1024) = L / 1024 := by ring
    rw [eL] at d
    rw [abs_le]
    constructor <;> nlinarith
  · have hi' : i = 1023 := by omega
    subst hi'
    have en : C03.nxt 1023 = 1023 := by unfold C03.nxt; norm_num
    rw [en]
    have a := abs_le.mp (hη 1023 (le_refl _))
    have hx : |((1023:ℕ):ℝ) / 1023 - (((1023:ℕ):ℝ) + f) / 1024| ≤ 1 / 1024 := by
      push_cast
      have e : (1023:ℝ) / 1023 - (1023 + f) / 1024 = (1 - f) / 1024 := by ring
      rw [e, abs_of_nonneg (by apply div_nonneg <;> linarith), div_le_div_iff₀ (by norm_num) (by norm_num)]
      linarith
    have d := abs_le.mp (le_trans (hlip (((1023:ℕ):ℝ) / 1023) ((((1023:ℕ):ℝ) + f) / 1024) (by positivity) (by positivity))
      (mul_le_mul_of_nonneg_left hx L0))
    have eL : L * (1 / 1024) = L / 1024 := by ring
    rw [eL] at d
    have χ0 : 0 ≤ χ := le_trans (abs_nonneg _) (hch 0 0 (by norm_num) (le_refl _) (by norm_num))
    rw [abs_le]
    constructor <;> nlinarith

theorem GD_chord (i : ℕ) (f : ℝ) (_ : i < 1023) (f0 : 0 ≤ f) (f1 : f ≤ 1) :
    |(1 - f) * GD (i / 1023) + f * GD (((i + 1 : ℕ) : ℝ) / 1023) - GD (((i:ℝ) + f) / 1023)| ≤ (4 / 1023) ^ 2 * (50 / 49) := by
  have hc := cell_chord 4 (by norm_num) (le_refl _) i f f0 f1
  have h1E : 49 / 50 < 1 - exp (-4 : ℝ) := by have := E4_lt_one; linarith
  unfold GD
  have e : (1 - f) * ((exp (-(4 * ((i:ℝ) / 1023))) - exp (-4)) / (1 - exp (-4))) +
      f * ((exp (-(4 * (((i + 1 : ℕ) : ℝ) / 1023))) - exp (-4)) / (1 - exp (-4))) -
      (exp (-(4 * (((i:ℝ) + f) / 1023))) - exp (-4)) / (1 - exp (-4)) =
      ((1 - f) * exp (-(4 * ((i:ℝ) / 1023))) + f * exp (-(4 * (((i + 1 : ℕ) : ℝ) / 1023))) -
        exp (-(4 * (((i:ℝ) + f) / 1023)))) / (1 - exp (-4)) := by ring
  rw [e, abs_div, abs_of_pos (by linarith : (0:ℝ) < 1 - exp (-4)), div_le_iff₀ (by linarith)]
  have : (0:ℝ) ≤ (4 / 1023) ^ 2 := by positivity
  nlinarith

theorem GA_chord (i : ℕ) (f : ℝ) (_ : i < 1023) (f0 : 0 ≤ f) (f1 : f ≤ 1) :
    |(1 - f) * GA (i / 1023) + f * GA (((i + 1 : ℕ) : ℝ) / 1023) - GA (((i:ℝ) + f) / 1023)| ≤ (4 / 3 / 1023) ^ 2 * (10 / 7) := by
  have hc := cell_chord (4 / 3) (by norm_num) (by norm_num) i f f0 f1
  have h1U : 7 / 10 < 1 - exp (-(4 / 3) : ℝ) := by have := U_lt; linarith
  unfold GA
  have r : ∀ x : ℝ, 4 * x / 3 = 4 / 3 * x := fun x => by ring
  simp only [r]
  have e : (1 - f) * ((1 - exp (-(4 / 3 * ((i:ℝ) / 1023)))) / (1 - exp (-(4 / 3)))) +
      f * ((1 - exp (-(4 / 3 * (((i + 1 : ℕ) : ℝ) / 1023)))) / (1 - exp (-(4 / 3)))) -
      (1 - exp (-(4 / 3 * (((i:ℝ) + f) / 1023)))) / (1 - exp (-(4 / 3))) =
      -(((1 - f) * exp (-(4 / 3 * ((i:ℝ) / 1023))) + f * exp (-(4 / 3 * (((i + 1 : ℕ) : ℝ) / 1023))) -
        exp (-(4 / 3 * (((i:ℝ) + f) / 1023)))) / (1 - exp (-(4 / 3)))) := by ring
  rw [e, abs_neg, abs_div, abs_of_pos (by linarith : (0:ℝ) < 1 - exp (-(4 / 3))), div_le_iff₀ (by linarith)]
  have : (0:ℝ) ≤ (4 / 3 / 1023) ^ 2 := by positivity
  nlinarith

/-- the ideal interpolant, cast to the reals, in the form `interp_close` uses; and the phase of a counter value -/
theorem ideal_cast (T : ℕ → ℚ) (a : ℕ) :
    ((C03.ideal T a : ℚ) : ℝ) = ((T (a / 2 ^ 14) : ℚ) : ℝ) +
      (((T (C03.nxt (a / 2 ^ 14)) : ℚ) : ℝ) - ((T (a / 2 ^ 14) : ℚ) : ℝ)) * (((a % 2 ^ 14 : ℕ) : ℝ) / 2 ^ 14) := by
  unfold C03.ideal idealInterp; push_cast; ring

theorem phase_split (a : ℕ) : ((a:ℝ)) / 2 ^ 24 = (((a / 2 ^ 14 : ℕ) : ℝ) + ((a % 2 ^ 14 : ℕ) : ℝ) / 2 ^ 14) / 1024 := by
  have h := Nat.div_add_mod a (2 ^ 14)
  have : (a:ℝ) = 2 ^ 14 * ((a / 2 ^ 14 : ℕ) : ℝ) + ((a % 2 ^ 14 : ℕ) : ℝ) := by exact_mod_cast h.symm
  rw [this]; field_simp; ring

/-- **decay / release sample**: at every counter position the interpolated sample is within `0.0041` of the documented
falling RC curve at the phase `acc/2^24` -/
theorem sample_fidelity_D (a : ℕ) (ha : a < 2 ^ 24) : |((sampleQ Dq a : ℚ) : ℝ) - GD ((a:ℝ) / 2 ^ 24)| ≤ 41 / 10000 := by
  have n1 := C03.sample_near_ideal Dq C03.DD C03.DD_small C03.decay_T C03.decay_cell_height a ha
  have n1' : |((sampleQ Dq a : ℚ) : ℝ) - ((C03.ideal Dq a : ℚ) : ℝ)| ≤ 2 ^ (-24:ℤ) + 2 ^ (-30:ℤ) := by
    have : ((|sampleQ Dq a - C03.ideal Dq a| : ℚ) : ℝ) ≤ (((2:ℚ) ^ (-24:ℤ) + 2 ^ (-30:ℤ) : ℚ) : ℝ) := by exact_mod_cast n1
    rw [Rat.cast_abs] at this; push_cast at this; exact this
  have hi : a / 2 ^ 14 ≤ 1023 := by omega
  have f0 : (0:ℝ) ≤ ((a % 2 ^ 14 : ℕ) : ℝ) / 2 ^ 14 := by positivity
  have f1 : ((a % 2 ^ 14 : ℕ) : ℝ) / 2 ^ 14 ≤ 1 := by
    rw [div_le_one (by norm_num)]
    have : a % 2 ^ 14 < 2 ^ 14 := Nat.mod_lt _ (by norm_num)
    have : ((a % 2 ^ 14 : ℕ) : ℝ) < 2 ^ 14 := by exact_mod_cast this
    linarith
  have ic := interp_close (fun i => ((Dq i : ℚ) : ℝ)) GD (63 / 10 ^ 6) ((4 / 1023) ^ 2 * (50 / 49)) (4 * (50 / 49))
    (by norm_num) decay_table_eta GD_chord
    (fun x y hx hy => by have := GD_lipschitz hx hy; linarith [this, (by ring : 4 * (50 / 49) * |x - y| = 4 * |x - y| * (50 / 49))])
    (a / 2 ^ 14) hi _ f0 f1
  rw [← ideal_cast Dq a, ← phase_split a] at ic
  have t := abs_sub_le ((sampleQ Dq a : ℚ) : ℝ) ((C03.ideal Dq a : ℚ) : ℝ) (GD ((a:ℝ) / 2 ^ 24))
  have num : (2:ℝ) ^ (-24:ℤ) + 2 ^ (-30:ℤ) + (63 / 10 ^ 6 + (4 / 1023) ^ 2 * (50 / 49) + 4 * (50 / 49) / 1024) ≤ 41 / 10000 := by
    norm_num
  generalize (2:ℝ) ^ (-24:ℤ) + 2 ^ (-30:ℤ) = e at n1' num
  linarith

/-- **attack sample**: within `0.002` of the documented rising RC curve -/
theorem sample_fidelity_A (a : ℕ) (ha : a < 2 ^ 24) : |((sampleQ Aq a : ℚ) : ℝ) - GA ((a:ℝ) / 2 ^ 24)| ≤ 2 / 1000 := by
  have n1 := C03.sample_near_ideal Aq C03.DA C03.DA_small C03.attack_T C03.attack_cell_height a ha
  have n1' : |((sampleQ Aq a : ℚ) : ℝ) - ((C03.ideal Aq a : ℚ) : ℝ)| ≤ 2 ^ (-24:ℤ) + 2 ^ (-30:ℤ) := by
    have : ((|sampleQ Aq a - C03.ideal Aq a| : ℚ) : ℝ) ≤ (((2:ℚ) ^ (-24:ℤ) + 2 ^ (-30:ℤ) : ℚ) : ℝ) := by exact_mod_cast n1
    rw [Rat.cast_abs] at this; push_cast at this; exact this
  have hi : a / 2 ^ 14 ≤ 1023 := by omega
  have f0 : (0:ℝ) ≤ ((a % 2 ^ 14 : ℕ) : ℝ) / 2 ^ 14 := by positivity
  have f1 : ((a % 2 ^ 14 : ℕ) : ℝ) / 2 ^ 14 ≤ 1 := by
    rw [div_le_one (by norm_num)]
    have : a % 2 ^ 14 < 2 ^ 14 := Nat.mod_lt _ (by norm_num)
    have : ((a % 2 ^ 14 : ℕ) : ℝ) < 2 ^ 14 := by exact_mod_cast this
    linarith
  have ic := interp_close (fun i => ((Aq i : ℚ) : ℝ)) GA (63 / 10 ^ 6) ((4 / 3 / 1023) ^ 2 * (10 / 7)) (4 / 3 * (10 / 7))
    (by norm_num) attack_table_eta GA_chord
    (fun x y hx hy => by have := GA_lipschitz hx hy; linarith [this, (by ring : 4 / 3 * (10 / 7) * |x - y| = 4 / 3 * |x - y| * (10 / 7))])
    (a / 2 ^ 14) hi _ f0 f1
  rw [← ideal_cast Aq a, ← phase_split a] at ic
  have t := abs_sub_le ((sampleQ Aq a : ℚ) : ℝ) ((C03.ideal Aq a : ℚ) : ℝ) (GA ((a:ℝ) / 2 ^ 24))
  have num : (2:ℝ) ^ (-24:ℤ) + 2 ^ (-30:ℤ) + (63 / 10 ^ 6 + (4 / 3 / 1023) ^ 2 * (10 / 7) + 4 / 3 * (10 / 7) / 1024) ≤ 2 / 1000 := by
    norm_num
  generalize (2:ℝ) ^ (-24:ℤ) + 2 ^ (-30:ℤ) = e at n1' num
  linarith

/-! ### the envelope output -/

/-- the rounded blend `fl(fl(fl(1−L)·S) + L)` is within `2^-23` of `L + (1−L)·S` -/
theorem blend_near {L S : ℚ} (h0 : 0 ≤ L) (h1 : L ≤ 1) (s0 : 0 ≤ S) (s1 : S ≤ 1) :
    |blend L S - (L + (1 - L) * S)| ≤ 2 ^ (-23:ℤ) := by
  obtain ⟨c0, c1, cL⟩ := coeff_range h0 h1
  unfold blend
  set c := rnd (1 - L) with hc
  have cL' := abs_le.mp cL
  have hsmall : (2:ℚ) ^ (-25:ℤ) ≤ 1 / 2 := by norm_num
  have p0 : 0 ≤ c * S := by positivity
  have p1 : c * S ≤ 1 := by nlinarith
  have e1 : |rnd (c * S) - c * S| ≤ 2 ^ (-25:ℤ) := by
    by_cases hp : c * S = 1
    · rw [hp, rnd_rep rep_one]; simp
    · have := rnd_err (x := c * S) (k := 0) (by norm_num)
        (by rw [abs_of_nonneg p0]; norm_num; exact lt_of_le_of_ne p1 hp)
      simpa using this
  have r0 : 0 ≤ rnd (c * S) := rnd_nonneg p0
  have r1 : rnd (c * S) ≤ c := by
    calc rnd (c * S) ≤ rnd c := rnd_mono (by nlinarith)
      _ = c := by rw [hc]; exact rnd_idem _
  have e2 : |rnd (rnd (c * S) + L) - (rnd (c * S) + L)| ≤ 2 ^ (-24:ℤ) := by
    have hlt : rnd (c * S) + L < 2 := by
      have h2 := cL'.2
      calc rnd (c * S) + L ≤ c + L := by linarith
        _ ≤ 1 + 2 ^ (-25:ℤ) := by linarith
        _ ≤ 1 + 1 / 2 := by linarith
        _ < 2 := by norm_num
    have := rnd_err (x := rnd (c * S) + L) (k := 1) (by norm_num)
      (by rw [abs_of_nonneg (by linarith)]; simpa using hlt)
    simpa using this
  have e3 : |(c - (1 - L)) * S| ≤ 2 ^ (-25:ℤ) := by
    rw [abs_mul, abs_of_nonneg s0]
    have : |c - (1 - L)| ≤ 2 ^ (-25:ℤ) := by
      have : c - (1 - L) = c + L - 1 := by ring
      rw [this]; exact cL
    calc |c - (1 - L)| * S ≤ 2 ^ (-25:ℤ) * 1 := mul_le_mul this s1 s0 (by positivity)
      _ = 2 ^ (-25:ℤ) := mul_one _
  have split : rnd (rnd (c * S) + L) - (L + (1 - L) * S) =
      (rnd (rnd (c * S) + L) - (rnd (c * S) + L)) + (rnd (c * S) - c * S) + (c - (1 - L)) * S := by ring
  rw [split]
  have t1 := abs_add_le ((rnd (rnd (c * S) + L) - (rnd (c * S) + L)) + (rnd (c * S) - c * S)) ((c - (1 - L)) * S)
  have t2 := abs_add_le (rnd (rnd (c * S) + L) - (rnd (c * S) + L)) (rnd (c * S) - c * S)
  have num : (2:ℚ) ^ (-24:ℤ) + 2 ^ (-25:ℤ) + 2 ^ (-25:ℤ) = 2 ^ (-23:ℤ) := by norm_num
  linarith

/-- the documented curve of the phase the envelope is in, stretched between the level at which the phase started and
its target level, at phase position `p` -/
noncomputable def reference (a : Adsr) (p : ℝ) : ℝ :=
  match a.state with
  | .attack => (a.onLevel.val : ℝ) + (1 - (a.onLevel.val : ℝ)) * GA p
  | .decay => (a.sustain.val : ℝ) + (1 - (a.sustain.val : ℝ)) * GD p
  | .release => (a.offLevel.val : ℝ) * GD p
  | .sustain => (a.sustain.val : ℝ)
  | .atRest => 0

/-- **C01, curve fidelity.**  Every output of a `tick` — in any phase, at any of the 2^24 positions, for every start
level and sustain level, after any history — is within 0.5 % of full scale of the documented RC curve stretched
between the level at which the phase started and the phase's target level (exactly on it while sustaining and at
rest). -/
theorem fidelity (a a' : Adsr) (h : AInv a) (e : a.tick = some a') :
    |((a'.value.val : ℚ) : ℝ) - reference a' ((a'.pa.acc : ℝ) / 2 ^ 24)| ≤ 5 / 1000 := by
  obtain ⟨i', v⟩ := tick_value a a' h e
  have hacc := i'.ok.acc
  obtain ⟨ra0, ra1⟩ := attack_rising.sample_range a'.pa.acc hacc
  obtain ⟨rd0, rd1⟩ := decay_falling.sample_range a'.pa.acc hacc
  have fA := abs_le.mp (sample_fidelity_A a'.pa.acc hacc)
  have fD := abs_le.mp (sample_fidelity_D a'.pa.acc hacc)
  have castabs : ∀ (x : ℚ) (b : ℚ), |x| ≤ b → |(x : ℝ)| ≤ (b : ℝ) := by
    intro x b hx
    have : ((|x| : ℚ) : ℝ) ≤ (b : ℝ) := by exact_mod_cast hx
    rwa [Rat.cast_abs] at this
  have e23 : (((2:ℚ) ^ (-23:ℤ) : ℚ) : ℝ) ≤ 1 / 1000000 := by push_cast; norm_num
  unfold reference
  rw [v]
  cases hst : a'.state <;> simp only
  · norm_num
  · -- attack
    have bn := castabs _ _ (blend_near i'.on.2.1 i'.on.2.2.1 ra0 ra1)
    push_cast at bn
    have bn' := abs_le.mp bn
    have L0 : (0:ℝ) ≤ (a'.onLevel.val : ℝ) := by exact_mod_cast i'.on.2.1
    have L1 : ((a'.onLevel.val : ℚ) : ℝ) ≤ 1 := by exact_mod_cast i'.on.2.2.1
    have e23' : (2:ℝ) ^ (-23:ℤ) ≤ 1 / 1000000 := by norm_num
    generalize (2:ℝ) ^ (-23:ℤ) = ε at *
    rw [abs_le]
    constructor <;> nlinarith [fA.1, fA.2, bn'.1, bn'.2]
  · -- decay
    have bn := castabs _ _ (blend_near i'.sus.2.1 i'.sus.2.2.1 rd0 rd1)
    push_cast at bn
    have bn' := abs_le.mp bn
    have L0 : (0:ℝ) ≤ (a'.sustain.val : ℝ) := by exact_mod_cast i'.sus.2.1
    have L1 : ((a'.sustain.val : ℚ) : ℝ) ≤ 1 := by exact_mod_cast i'.sus.2.2.1
    have e23' : (2:ℝ) ^ (-23:ℤ) ≤ 1 / 1000000 := by norm_num
    generalize (2:ℝ) ^ (-23:ℤ) = ε at *
    rw [abs_le]
    constructor <;> nlinarith [fD.1, fD.2, bn'.1, bn'.2]
  · norm_num
  · -- release
    have L0q := i'.off.2.1
    have L1q := i'.off.2.2.1
    have p0 : 0 ≤ a'.offLevel.val * sampleQ Dq a'.pa.acc := by positivity
    have p1 : a'.offLevel.val * sampleQ Dq a'.pa.acc ≤ 1 := by nlinarith
    have er : |rnd (a'.offLevel.val * sampleQ Dq a'.pa.acc) - a'.offLevel.val * sampleQ Dq a'.pa.acc| ≤ 2 ^ (-24:ℤ) := by
      have := rnd_err_le_one (x := a'.offLevel.val * sampleQ Dq a'.pa.acc) (by rw [abs_of_nonneg p0]; exact p1)
      exact this
    have bn := castabs _ _ er
    push_cast at bn
    have bn' := abs_le.mp bn
    have L0 : (0:ℝ) ≤ (a'.offLevel.val : ℝ) := by exact_mod_cast L0q
    have L1 : ((a'.offLevel.val : ℚ) : ℝ) ≤ 1 := by exact_mod_cast L1q
    have e24' : (2:ℝ) ^ (-24:ℤ) ≤ 1 / 1000000 := by norm_num
    generalize (2:ℝ) ^ (-24:ℤ) = ε at *
    rw [abs_le]
    constructor <;> nlinarith [fD.1, fD.2, bn'.1, bn'.2]

end C01.Fidelity
