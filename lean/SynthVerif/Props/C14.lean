import SynthVerif.Model.Adsr
import SynthVerif.Model.Lfo
import SynthVerif.Model.Quantizer
import SynthVerif.Model.Midi
import SynthVerif.Model.Glide
import SynthVerif.Model.Ribbon
namespace C14
theorem placeholder_to_be_replaced : True := trivial
end C14
