import SynthVerif.Props.C13
/-!
# C14 — Glide time setting means what it says

* `setTime_cache`: a `set_time(t)` call is ignored exactly when `|fl(t − cached)| ≤ 0.05f32`, where `cached` is the
  last honoured argument (the time in effect); otherwise `cached := t` and the coefficients are recomputed from `t`
  alone — the filter memory is never touched (`C13.setTime_inv`).
* `cutoff_of`: the cut-off actually used is `clamp(fl(1/t), fl(0.1), fs/2)`; hence
  `long_times_equal`: every `t ≥ 10` (including +∞) selects the same coefficients as `t = 10`, and
  `short_times_equal`: every `t` with `fl(1/t) ≥ fs/2` (in particular 0 and every time below two samples) selects
  the same, fastest, coefficients.
* `ideal_residual`: for the unrounded recurrence the distance to a held input shrinks by the factor
  `1 − α = 1/(1+ω)` per sample (`ω = 2π·f0/fs`): the discrete RC lag of the property.
* Part 2, `C14Coverage.lean`: the numeric coverage figures for the *rounded* filter with the coefficients
  `set_time` actually computes — `glide_time_coverage` (≥ 99.75 % at t, 42.5–53 % at t/10, for every (fs, t) with at
  least 100 samples per t ≤ 10 s) and `fastest_settles` (8 samples for the fastest setting).
-/
namespace C14
open F32 Glide

/-- the guard of `set_time` -/
def ignored (g : Glide) (t : F32) : Bool := le (fabs (sub t g.cachedT)) epsilon

theorem setTime_cache (g : Glide) (t : F32) :
    (ignored g t = true → g.setTime t = some g) ∧
    (ignored g t = false → ∀ g', g.setTime t = some g' →
        g'.cachedT = t ∧ g'.x1 = g.x1 ∧ g'.x2 = g.x2 ∧ g'.y1 = g.y1 ∧ g'.y2 = g.y2 ∧
        some g'.coeffs = mkCoeffs g.fs (fmin (fmax (div one t) g.minFc) g.maxFc)) := by
  unfold ignored Glide.setTime
  constructor
  · intro h; rw [if_pos h]
  · intro h g' hg
    have hn : ¬ (le (fabs (sub t g.cachedT)) epsilon = true) := by simp [h]
    rw [if_neg hn] at hg
    dsimp only at hg
    cases hc : mkCoeffs g.fs (fmin (fmax (div one t) g.minFc) g.maxFc) with
    | none => rw [hc] at hg; simp at hg
    | some c =>
      rw [hc] at hg
      simp only [Option.some.injEq] at hg
      subst hg
      exact ⟨rfl, rfl, rfl, rfl, rfl, rfl⟩

theorem epsilon_is_50ms : epsilon.val = rnd (1 / 20) ∧ epsilon.isFin = true := by decide +kernel

/-- the first call after construction is always honoured for `t ≥ 0`: the cache starts at −1 -/
theorem first_call_honoured (σ : ℚ) (ns : Bool) (g : Glide) (hg : g.cachedT = .fin (-1) false)
    (a : ℚ) (na : Bool) (ha : 0 ≤ a) (hb : a ≤ 2 ^ (100:ℤ)) : ignored g (.fin a na) = false := by
  unfold ignored
  rw [hg]
  have hs := val_sub (x := .fin a na) (y := .fin (-1) false) rfl rfl
    (by simp only [val_fin]; rw [abs_of_nonneg (by linarith)]; linarith [show (2:ℚ) ^ (100:ℤ) + 1 ≤ 2 ^ (127:ℤ) by norm_num])
  simp only [val_fin] at hs
  obtain ⟨s1, s2⟩ := hs
  have h1 : 1 ≤ (sub (.fin a na) (.fin (-1) false)).val := by
    rw [s2]; exact le_rnd_of_le (by linarith) rep_one
  obtain ⟨e1, e2⟩ := epsilon_is_50ms
  have heps : epsilon.val < 1 := by
    rw [e1]; exact lt_of_le_of_lt (rnd_le_of_le (by norm_num : (1:ℚ)/20 ≤ 1/16)
      (by have := rep_div_pow2 (m := 1) (by norm_num) 4 (by norm_num); norm_num at this; exact this)) (by norm_num)
  cases hd : sub (F32.fin a na) (.fin (-1) false) with
  | nan => rw [hd] at s1; simp at s1
  | inf s => rw [hd] at s1; simp at s1
  | fin d nd =>
    rw [hd, val_fin] at h1
    have : ¬ d < 0 := by linarith
    have hf : fabs (F32.fin d nd) = .fin d nd := by simp [fabs, lt, zero, this]
    rw [hf, le_val (isFin_fin _ _) e2, val_fin]
    have : ¬ d ≤ epsilon.val := by linarith
    simpa using this

/-- the cut-off for a time argument -/
def cutoffOf (g : Glide) (t : F32) : F32 := fmin (fmax (div one t) g.minFc) g.maxFc

theorem ten_recip : div one (.fin 10 false) = ofRat (1 / 10) := by decide +kernel

theorem clamp_low (m b d : ℚ) (nd : Bool) (hmb : m < b) (hd : d ≤ m) (hnd : d = m → nd = false) :
    C20.clampSpec (.fin m false) (.fin b false) (.fin d nd) = .fin m false := by
  by_cases hlt : d < m
  · simp [C20.clampSpec, lt, hlt]
  · have heq : d = m := le_antisymm hd (not_lt.mp hlt)
    have := hnd heq
    subst this; subst heq
    have : ¬ b < d := not_lt.mpr (le_of_lt hmb)
    simp [C20.clampSpec, lt, this]

/-- **times ≥ 10 s behave like 10 s**: same cut-off, hence same coefficients -/
theorem long_times_equal (g : Glide) (σ : ℚ) (ns : Bool) (h : C13.CInv g σ ns) (a : ℚ) (na : Bool) (ha : 10 ≤ a) :
    cutoffOf g (.fin a na) = cutoffOf g (.fin 10 false) ∧ cutoffOf g (.inf false) = cutoffOf g (.fin 10 false) := by
  obtain ⟨m1, m2, m3, m4⟩ := C13.minFc_val
  have hσ : (ofRat (1 / 10)).val < σ / 2 := by linarith [h.lo]
  have hcl := fun x => C20.max_min_clamp (ofRat (1 / 10)).val (σ / 2) (by linarith) (by linarith [h.lo]) hσ x
  have key : ∀ x, cutoffOf g x = C20.clampSpec (.fin (ofRat (1 / 10)).val false) (.fin (σ / 2) false) (div one x) := by
    intro x; unfold cutoffOf; rw [h.minFc, h.maxFc]; rw [m4] at *; exact hcl _
  rw [key, key, key]
  have hv : (ofRat (1 / 10)).val = rnd (1 / 10) := by decide +kernel
  -- fl(1/a) ≤ fl(1/10)
  have hq : (1:ℚ) / a ≤ 1 / 10 := by rw [div_le_div_iff₀ (by linarith) (by norm_num)]; linarith
  have hone : one = .fin 1 false := rfl
  have hov : one.val = 1 := rfl
  have hdv : (div one (.fin a na)).isFin = true ∧ (div one (.fin a na)).val = rnd (1 / a) := by
    have := val_div (x := one) (y := .fin a na) rfl rfl (by rw [val_fin]; linarith)
      (by rw [hov, val_fin, abs_of_nonneg (by positivity)]; exact le_trans hq (by norm_num))
    rwa [hov, val_fin] at this
  have hle : (div one (.fin a na)).val ≤ (ofRat (1 / 10)).val := by
    rw [hdv.2, hv]; exact rnd_mono hq
  rw [ten_recip]
  have rhs : C20.clampSpec (.fin (ofRat (1 / 10)).val false) (.fin (σ / 2) false) (ofRat (1 / 10)) =
      .fin (ofRat (1 / 10)).val false := by
    conv_lhs => rw [m4]
    exact clamp_low _ _ _ _ hσ (le_refl _) (fun _ => rfl)
  rw [rhs]
  constructor
  · cases hd : div one (F32.fin a na) with
    | nan => rw [hd] at hdv; simp at hdv
    | inf s => rw [hd] at hdv; simp at hdv
    | fin d nd =>
      rw [hd, val_fin] at hle
      apply clamp_low _ _ _ _ hσ hle
      intro heq
      have : div one (F32.fin a na) = round (1 / a) ((F32.fin (1:ℚ) false).sign != (F32.fin a na).sign) := by
        rw [hone, div_fin _ _ _ _ (by linarith)]
      rw [this, round_def] at hd
      split at hd
      · simp at hd
      · split at hd
        · rename_i hz
          simp only [F32.fin.injEq] at hd
          have : d = 0 := hd.1.symm
          rw [this] at heq; linarith
        · simp only [F32.fin.injEq] at hd; exact hd.2.symm
  · have : div one (.inf false) = .fin 0 false := by simp [div, one, sign]
    rw [this]
    exact clamp_low _ _ _ _ hσ (by linarith) (fun h0 => by linarith)

theorem clamp_high (m b d : ℚ) (nd : Bool) (hm0 : 0 < m) (hmb : m < b) (hd : b ≤ d) (hnd : nd = false) :
    C20.clampSpec (.fin m false) (.fin b false) (.fin d nd) = .fin b false := by
  have h1 : ¬ d < m := by linarith
  by_cases hlt : b < d
  · simp [C20.clampSpec, lt, h1, hlt]
  · have heq : d = b := le_antisymm (not_lt.mp hlt) hd
    subst hnd; subst heq
    simp [C20.clampSpec, lt, h1]

/-- **times below two samples select the fastest response**: `set_time(0)` and every `t > 0` whose rounded
reciprocal reaches `fs/2` use the cut-off `fs/2` -/
theorem short_times_equal (g : Glide) (σ : ℚ) (ns : Bool) (h : C13.CInv g σ ns) :
    cutoffOf g zero = .fin (σ / 2) false ∧
    ∀ (a : ℚ) (na : Bool), 0 < a → σ / 2 ≤ rnd (1 / a) → 1 / a ≤ 2 ^ (127:ℤ) →
      cutoffOf g (.fin a na) = .fin (σ / 2) false := by
  obtain ⟨m1, m2, m3, m4⟩ := C13.minFc_val
  have hσ : (ofRat (1 / 10)).val < σ / 2 := by linarith [h.lo]
  have hm0 : 0 < (ofRat (1 / 10)).val := by linarith
  have hcl := fun x => C20.max_min_clamp (ofRat (1 / 10)).val (σ / 2) (by linarith) (by linarith [h.lo]) hσ x
  have key : ∀ x, cutoffOf g x = C20.clampSpec (.fin (ofRat (1 / 10)).val false) (.fin (σ / 2) false) (div one x) := by
    intro x; unfold cutoffOf; rw [h.minFc, h.maxFc]; rw [m4] at *; exact hcl _
  constructor
  · rw [key]
    have : div one zero = .inf false := by simp [div, one, zero, sign]
    rw [this]
    simp [C20.clampSpec, lt]
  · intro a na ha hge hbig
    rw [key]
    have hone : one = .fin 1 false := rfl
    have hd : div one (.fin a na) = round (1 / a) ((F32.fin (1:ℚ) false).sign != (F32.fin a na).sign) := by
      rw [hone, div_fin _ _ _ _ (ne_of_gt ha)]
    have hpos : 0 < rnd (1 / a) := by linarith [h.lo]
    have hov : |rnd (1 / a)| < 2 ^ (128:ℤ) :=
      no_overflow (by rw [abs_of_nonneg (by positivity)]; exact hbig)
    rw [hd, round_def, qabs_eq, pow2_eq, if_neg (not_le.mpr hov)]
    have hne : (rnd (1 / a) == 0) = false := by simpa using ne_of_gt hpos
    rw [hne]
    simp only [Bool.false_eq_true, ↓reduceIte]
    exact clamp_high _ _ _ _ hm0 hσ hge rfl

/-- the ideal (unrounded) one-pole recurrence -/
def idealStep (α x y : ℚ) : ℚ := α * x + (1 - α) * y

/-- its distance to a held input shrinks by exactly `1 − α` per sample: after `n` samples `(1 − α)^n` of the
step remains — an RC lag with per-sample factor `1/(1+ω)` since `α = ω/(1+ω)` -/
theorem ideal_residual (α x y0 : ℚ) (n : ℕ) :
    (fun y => idealStep α x y)^[n] y0 - x = (1 - α) ^ n * (y0 - x) := by
  induction n with
  | zero => simp
  | succ n ih =>
    rw [Function.iterate_succ_apply', pow_succ]
    unfold idealStep at *
    have : α * x + (1 - α) * (fun y => α * x + (1 - α) * y)^[n] y0 - x =
        (1 - α) * ((fun y => α * x + (1 - α) * y)^[n] y0 - x) := by ring
    rw [this, ih]; ring

theorem alpha_of_omega (ω : ℚ) (h : 0 ≤ ω) : 1 - ω / (1 + ω) = 1 / (1 + ω) := by
  have : (1 + ω) ≠ 0 := by linarith
  field_simp; ring

end C14
