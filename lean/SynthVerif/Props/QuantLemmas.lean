import SynthVerif.Model.Quantizer
/-!
Helper lemmas about the quantizer's integer search (core Lean only): the scan returns one of its candidates,
and candidates decode back to an allowed pitch class.
-/
namespace Quantizer

/-- bit `n` of the scale bitfield -/
def bit (allowed n : Nat) : Bool := (allowed >>> n) % 2 == 1

theorem isAllowed_eq (q : Quantizer) (n : Nat) : q.isAllowed n = bit q.allowed n := rfl

theorem consts : Gen.halfStepUv = 83333 ∧ Gen.oneOctaveUv = 1000000 ∧ Gen.maxOctave = 10 := by decide

/-- membership in the candidates of one octave -/
theorem mem_octaveCands {allowed oct c : Nat} :
    c ∈ octaveCands allowed oct ↔ ∃ n, n < 12 ∧ bit allowed n = true ∧ c = n * Gen.halfStepUv + oct * Gen.oneOctaveUv := by
  simp only [octaveCands, List.mem_filterMap, List.mem_range, bit]
  constructor
  · rintro ⟨n, hn, h⟩
    split at h
    · rename_i hb; exact ⟨n, hn, hb, by simpa using h.symm⟩
    · simp at h
  · rintro ⟨n, hn, hb, rfl⟩
    exact ⟨n, hn, by simp [hb]⟩

theorem mem_octavesToSearch {o x : Nat} (h : x ∈ octavesToSearch o) : x ≤ o + 1 ∧ (x = o + 1 → o < Gen.maxOctave) := by
  simp only [octavesToSearch, List.mem_append, List.mem_singleton] at h
  rcases h with (h | h) | h
  · split at h
    · simp at h; omega
    · simp at h
  · omega
  · split at h
    · simp at h; omega
    · simp at h

theorem self_mem_octavesToSearch (o : Nat) : o ∈ octavesToSearch o := by
  simp [octavesToSearch]

/-- all candidates of a search -/
def allCands (allowed vin : Nat) : List Nat :=
  (octavesToSearch (vin / Gen.oneOctaveUv)).flatMap (octaveCands allowed)

/-! ### the scan -/

def Good (C : List Nat) (s : Scan) : Prop :=
  (∀ r, s.done = some r → r ∈ C) ∧ (s.smallest < 2 ^ 32 - 1 → s.nearest ∈ C)

def Progress (s : Scan) : Prop := s.done.isSome = true ∨ s.smallest < 2 ^ 32 - 1

theorem scanStep_good {C : List Nat} {vin c : Nat} {s : Scan} (hs : Good C s) (hc : c ∈ C)
    (hd : delta vin c ≤ 2 ^ 32 - 1) : Good C (scanStep vin s c) := by
  obtain ⟨h1, h2⟩ := hs
  unfold scanStep
  split
  · exact ⟨h1, h2⟩
  · rename_i hnone
    dsimp only
    split
    · exact ⟨by intro r hr; simp at hr; exact hr ▸ hc, by simpa using h2⟩
    · split
      · rename_i hlt
        refine ⟨?_, by simpa using h2⟩
        intro r hr; simp at hr
        exact hr ▸ h2 (by omega)
      · split
        · exact ⟨by simp [hnone], by intro _; exact hc⟩
        · exact ⟨by simp [hnone], h2⟩

theorem scanStep_progress {vin c : Nat} (s : Scan) (hd : delta vin c < 2 ^ 32 - 1) : Progress (scanStep vin s c) := by
  unfold scanStep Progress
  split
  · rename_i r hsome; left; simp [hsome]
  · dsimp only
    split
    · simp
    · split
      · simp
      · split
        · right; simpa using hd
        · right; rename_i a b; simp; omega

theorem scanStep_progress_keep {vin c : Nat} {s : Scan} (h : Progress s) : Progress (scanStep vin s c) := by
  unfold scanStep Progress at *
  split
  · rename_i r hsome; left; simp [hsome]
  · rename_i hnone
    simp only [hnone, Option.isSome_none, Bool.false_eq_true, false_or] at h
    dsimp only
    split
    · simp
    · split
      · simp
      · split
        · right; rename_i a; simp; omega
        · right; simpa using h

theorem foldl_good {C : List Nat} {vin : Nat} (L : List Nat) (hL : ∀ c ∈ L, c ∈ C ∧ delta vin c ≤ 2 ^ 32 - 1)
    (s : Scan) (hs : Good C s) : Good C (L.foldl (scanStep vin) s) := by
  induction L generalizing s with
  | nil => simpa using hs
  | cons c cs ih =>
    simp only [List.foldl_cons]
    exact ih (fun x hx => hL x (by simp [hx])) _ (scanStep_good hs (hL c (by simp)).1 (hL c (by simp)).2)

theorem foldl_progress_keep {vin : Nat} (L : List Nat) (s : Scan) (hs : Progress s) :
    Progress (L.foldl (scanStep vin) s) := by
  induction L generalizing s with
  | nil => simpa using hs
  | cons c cs ih => simp only [List.foldl_cons]; exact ih _ (scanStep_progress_keep hs)

/-- the value the search returns (in µV) is one of the candidates, if there is any candidate at all -/
theorem scan_result_mem {vin : Nat} (L : List Nat) (hne : L ≠ []) (hd : ∀ c ∈ L, delta vin c < 2 ^ 32 - 1) :
    (L.foldl (scanStep vin) {}).result ∈ L := by
  cases L with
  | nil => exact absurd rfl hne
  | cons c cs =>
    have g0 : Good (c :: cs) ({} : Scan) := ⟨by simp, by intro h; simp at h⟩
    have g := foldl_good (C := c :: cs) (vin := vin) (c :: cs) (fun x h => ⟨h, Nat.le_of_lt (hd x h)⟩) {} g0
    have p : Progress ((c :: cs).foldl (scanStep vin) {}) := by
      simp only [List.foldl_cons]
      exact foldl_progress_keep cs _ (scanStep_progress {} (hd c (by simp)))
    obtain ⟨g1, g2⟩ := g
    unfold Scan.result
    cases hdone : ((c :: cs).foldl (scanStep vin) {}).done with
    | some r => exact g1 r hdone
    | none =>
      rcases p with p | p
      · simp only [List.foldl_cons] at hdone; simp [hdone] at p
      · exact g2 p

end Quantizer
