import SynthVerif.Props.C16Window
/-!
# C16 for every sample history: while a press is reported, the stored position is the corrected mean of the current press only

`C16.recomputed_value` is the one-poll statement under a ghost hypothesis.  Here the ghost is *constructed* along an arbitrary
history of `poll` calls, so the statement needs no hypothesis about the state:

* `ghostStep` tracks, next to the model state, `all` (every sample ever written to the buffer) and `run` (the samples written
  during the current unbroken in-range run: an out-of-range sample empties it, the settling samples skipped up front never
  enter it);
* `HInv` = `Ghost` + "if a press is reported, the run has filled the buffer, the counters sit at their clamps and the stored
  position is `corr(mean(w))`, `w` = the oldest `cap − disc` of the last `cap` samples of `run`";
* `history`: `HInv` holds after every history (any samples, any `f32`), from any state that satisfies it — in particular from
  `Ribbon::new` (`new_inv`) — as long as no `poll` panics (`disc ≤ cap`, guaranteed for helper-sized buffers by
  `C17.ribbon_new_ok`).

So `value()` never depends on a sample of an earlier press (they are not in `run`) nor on the `disc` newest samples (they are
not in `w`).
-/
open F32
namespace C16

/-- the ghost lists after one `poll(x)` -/
def ghostStep (r : Ribbon) (all run : List F32) (x : F32) : List F32 × List F32 :=
  if lt x r.boundary then
    if r.ignore ≤ min (r.received + 1) r.ignore then (all ++ [x], run ++ [x]) else (all, run)
  else (all, [])

/-- the window `poll` averages when the current run is `run` -/
def window (r : Ribbon) (run : List F32) : List F32 := (lastN r.buff.cap run).take (r.buff.cap - r.discard)

structure HInv (r : Ribbon) (all run : List F32) : Prop where
  ghost : Ghost r all run
  disc : r.discard ≤ r.buff.cap
  recv : r.received ≤ r.ignore
  wr : r.written ≤ r.buff.cap
  press : r.pressing = true →
    r.ignore ≤ r.received ∧ r.written = r.buff.cap ∧ r.buff.cap ≤ run.length ∧
    r.current = corr r.errorConst (mean (window r run) (r.buff.cap - r.discard))

theorem write_cap' (b : HistBuf) (x : F32) : (b.write x).cap = b.cap := by
  unfold HistBuf.write; split <;> rfl

/-- one `poll` preserves the invariant (and does not panic) -/
theorem step (r : Ribbon) (all run : List F32) (h : HInv r all run) (x : F32) :
    ∃ r', r.poll x = some r' ∧ HInv r' (ghostStep r all run x).1 (ghostStep r all run x).2 ∧
      r'.boundary = r.boundary ∧ r'.errorConst = r.errorConst ∧ r'.ignore = r.ignore ∧ r'.discard = r.discard ∧
      r'.buff.cap = r.buff.cap := by
  obtain ⟨g, hd, hrc, hw, hp⟩ := h
  by_cases hin : lt x r.boundary = true
  · by_cases hign : r.ignore ≤ min (r.received + 1) r.ignore
    · -- the sample is written
      have hgs : ghostStep r all run x = (all ++ [x], run ++ [x]) := by simp [ghostStep, hin, hign]
      rw [hgs]
      by_cases hfull : min (r.written + 1) r.buff.cap = r.buff.cap
      · -- capture complete: the position is recomputed and a press is reported
        obtain ⟨r', e, p1, p2, p3, p4⟩ := recomputed_value r all run g x hin hign hfull hd
        have hcapw : (r.buff.write x).capacity = r.buff.cap := write_cap' r.buff x
        have hnd : ¬ r.buff.cap < r.discard := by omega
        -- the remaining fields of r'
        have hfields : r'.ignore = r.ignore ∧ r'.discard = r.discard ∧ r'.buff.cap = r.buff.cap ∧ r'.errorConst = r.errorConst ∧
            r'.received = min (r.received + 1) r.ignore ∧ r'.written = r.buff.cap := by
          unfold Ribbon.poll at e
          cases hpr : r.pressing <;>
            simp only [hin, hign, ↓reduceIte, hcapw, hfull, beq_self_eq_true, hnd, hpr, Bool.not_false, Bool.not_true,
              Bool.false_eq_true, Option.some.injEq] at e <;>
            (subst e; exact ⟨rfl, rfl, write_cap' r.buff x, rfl, rfl, rfl⟩)
        obtain ⟨f1, f2, f3, f4, f5, f6⟩ := hfields
        have hlen : r.buff.cap ≤ (run ++ [x]).length := by
          have := g.written
          simp only [List.length_append, List.length_singleton]
          omega
        refine ⟨r', e, ⟨p4, by rw [f2, f3]; exact hd, by rw [f5, f1]; omega, by rw [f6, f3], fun _ => ?_⟩, p3, f4, f1, f2, f3⟩
        refine ⟨by rw [f1, f5]; exact hign, by rw [f6, f3], by rw [f3]; exact hlen, ?_⟩
        rw [p2, f4]
        unfold window
        rw [f3, f2]
      · -- not yet full: only the buffer and the counters move
        have hcapw : (r.buff.write x).capacity = r.buff.cap := write_cap' r.buff x
        have hne : (min (r.written + 1) r.buff.cap == r.buff.cap) = false := by simpa using hfull
        have hnp : r.pressing = false := by
          cases hpr : r.pressing
          · rfl
          · exfalso; obtain ⟨_, w2, _, _⟩ := hp hpr; apply hfull; rw [w2]; omega
        have e : r.poll x = some { r with received := min (r.received + 1) r.ignore, buff := r.buff.write x,
                                          written := min (r.written + 1) r.buff.cap } := by
          unfold Ribbon.poll
          simp only [hin, hign, ↓reduceIte, hcapw, hne, Bool.false_eq_true]
        refine ⟨_, e, ⟨?_, (by show r.discard ≤ (r.buff.write x).cap; rw [write_cap']; exact hd),
          (by show min (r.received + 1) r.ignore ≤ r.ignore; exact Nat.min_le_right _ _),
          (by show min (r.written + 1) r.buff.cap ≤ (r.buff.write x).cap; rw [write_cap']; exact Nat.min_le_right _ _),
          fun hpr => (by have : r.pressing = true := hpr; rw [hnp] at this; exact absurd this (by simp))⟩,
          rfl, rfl, rfl, rfl, write_cap' r.buff x⟩
        obtain ⟨hcap, hitems, ⟨pre, hpre⟩, hwr⟩ := g
        obtain ⟨hw1, hw2⟩ := write_lastN r.buff all x hcap hitems
        refine ⟨(by show 1 ≤ (r.buff.write x).cap; rw [hw2]; exact hcap),
          (by show (r.buff.write x).items = lastN (r.buff.write x).cap (all ++ [x]); rw [hw2]; exact hw1),
          ⟨pre, by rw [hpre, List.append_assoc]⟩, ?_⟩
        show min (r.written + 1) r.buff.cap = min (run ++ [x]).length (r.buff.write x).cap
        rw [hw2, hwr]
        simp only [List.length_append, List.length_singleton]
        omega
    · -- a settling sample: skipped
      have hgs : ghostStep r all run x = (all, run) := by simp [ghostStep, hin, hign]
      rw [hgs]
      have hnp : r.pressing = false := by
        cases hpr : r.pressing
        · rfl
        · exfalso; obtain ⟨w1, _, _, _⟩ := hp hpr; apply hign; omega
      have e : r.poll x = some { r with received := min (r.received + 1) r.ignore } := by
        unfold Ribbon.poll
        simp only [hin, hign, ↓reduceIte]
      refine ⟨_, e, ⟨⟨g.cap, g.items, g.suffix, g.written⟩, hd,
        (by show min (r.received + 1) r.ignore ≤ r.ignore; exact Nat.min_le_right _ _), hw,
        fun hpr => (by have : r.pressing = true := hpr; rw [hnp] at this; exact absurd this (by simp))⟩,
        rfl, rfl, rfl, rfl, rfl⟩
  · -- out of range: the run ends
    have hin' : lt x r.boundary = false := by simpa using hin
    have hgs : ghostStep r all run x = (all, []) := by simp [ghostStep, hin']
    rw [hgs]
    cases hpr : r.pressing
    · have e : r.poll x = some { r with received := 0, written := 0 } := by
        unfold Ribbon.poll
        simp [hin', hpr]
      exact ⟨_, e, ⟨⟨g.cap, g.items, ⟨all, by simp⟩, by simp⟩, hd, Nat.zero_le _, Nat.zero_le _,
        fun hq => (by have : r.pressing = true := hq; rw [hpr] at this; exact absurd this (by simp))⟩, rfl, rfl, rfl, rfl, rfl⟩
    · have e : r.poll x = some { r with justReleased := true, pressing := false, received := 0, written := 0 } := by
        unfold Ribbon.poll
        simp [hin', hpr]
      exact ⟨_, e, ⟨⟨g.cap, g.items, ⟨all, by simp⟩, by simp⟩, hd, Nat.zero_le _, Nat.zero_le _,
        fun hq => (by simp at hq)⟩, rfl, rfl, rfl, rfl, rfl⟩

/-- the ghost lists after a history -/
def ghostRun : Ribbon → List F32 → List F32 → List F32 → Option (Ribbon × List F32 × List F32)
  | r, all, run, [] => some (r, all, run)
  | r, all, run, x :: xs =>
    match r.poll x with
    | none => none
    | some r' => ghostRun r' (ghostStep r all run x).1 (ghostStep r all run x).2 xs

/-- **C16, all histories.**  From any state satisfying the invariant, no `poll` panics and the invariant holds at the end: in
particular, whenever a press is reported the stored position is `corr(mean(window))` over the current run only. -/
theorem history (xs : List F32) (r : Ribbon) (all run : List F32) (h : HInv r all run) :
    ∃ r' all' run', ghostRun r all run xs = some (r', all', run') ∧ HInv r' all' run' := by
  induction xs generalizing r all run with
  | nil => exact ⟨r, all, run, rfl, h⟩
  | cons x xs ih =>
    obtain ⟨r1, e1, h1, _⟩ := step r all run h x
    obtain ⟨r', all', run', e', h'⟩ := ih r1 _ _ h1
    exact ⟨r', all', run', by simp only [ghostRun, e1]; exact e', h'⟩

/-- a freshly constructed controller (capacity at least one and at least the number of discarded samples) satisfies the
invariant with empty ghost lists -/
theorem new_inv {cap : ℕ} {sr sp dr pu : F32} {r : Ribbon} (h : Ribbon.new cap sr sp dr pu = some r) (hc : 1 ≤ cap)
    (hd : r.discard ≤ cap) : HInv r [] [] := by
  unfold Ribbon.new at h
  split at h
  · simp only [Option.some.injEq] at h
    subst h
    simp only at hd
    refine ⟨⟨hc, by simp [HistBuf.new, lastN], ⟨[], rfl⟩, by simp⟩, hd, by simp, by simp, fun hp => by simp at hp⟩
  · simp at h

/-- the current run consists of in-range samples only, and an out-of-range sample forgets everything before it: `run` never
contains a sample of an earlier press -/
theorem run_in_range (xs : List F32) (r : Ribbon) (all run : List F32) (h : HInv r all run)
    (hr : ∀ y ∈ run, lt y r.boundary = true) :
    ∀ r' all' run', ghostRun r all run xs = some (r', all', run') → ∀ y ∈ run', lt y r'.boundary = true := by
  induction xs generalizing r all run with
  | nil =>
    intro r' all' run' e
    simp only [ghostRun, Option.some.injEq, Prod.mk.injEq] at e
    obtain ⟨rfl, _, rfl⟩ := e
    exact hr
  | cons x xs ih =>
    intro r' all' run' e
    obtain ⟨r1, e1, h1, hb, _⟩ := step r all run h x
    simp only [ghostRun, e1] at e
    refine ih r1 _ _ h1 ?_ r' all' run' e
    intro y hy
    rw [hb]
    unfold ghostStep at hy
    by_cases hin : lt x r.boundary = true
    · simp only [hin, ↓reduceIte] at hy
      split at hy
      · simp only [List.mem_append, List.mem_singleton] at hy
        rcases hy with hy | rfl
        · exact hr y hy
        · exact hin
      · exact hr y hy
    · have : lt x r.boundary = false := by simpa using hin
      simp [this] at hy

end C16
